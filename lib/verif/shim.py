"""Bootstrap of the parser shim: derive data from /repo's current tree (content-hash
cache), compile the Java server if needed, install the import hook.  No file under /repo
is touched."""
import fcntl, importlib.abc, importlib.util, os, subprocess, sys

VERIF = os.path.dirname(os.path.dirname(os.path.dirname(os.path.abspath(__file__))))
ENG = os.path.join(VERIF, "engines", "parseshim")
JAR = os.path.join(VERIF, "vendor", "antlr4-runtime-4.11.1.jar")
CACHE = os.path.join(VERIF, ".cache", "parseshim")
MOD = "vtlengine.AST.Grammar._cpp_parser.vtl_cpp_parser"


class HarnessError(Exception):
    pass


def prepare(repo):
    sys.path.insert(0, ENG)
    import derive
    os.makedirs(CACHE, exist_ok=True)
    h = derive.tree_hash(repo)
    data = os.path.join(CACHE, "data-" + h)
    classes = os.path.join(CACHE, "classes")
    with open(os.path.join(CACHE, ".lock"), "w") as lk:
        fcntl.flock(lk, fcntl.LOCK_EX)
        if not os.path.exists(os.path.join(data, "shim.json")):
            try:
                derive.main(repo, data + ".tmp")
            except SystemExit:
                raise HarnessError("parseshim derive failed (Vtl.cpp / Vtl.g4 / bindings.cpp disagree)")
            os.rename(data + ".tmp", data)
        src = os.path.join(ENG, "VtlParseServer.java")
        stamp = os.path.join(classes, "VtlParseServer.class")
        if not os.path.exists(stamp) or os.path.getmtime(stamp) < os.path.getmtime(src):
            os.makedirs(classes, exist_ok=True)
            r = subprocess.run(["javac", "-nowarn", "-cp", JAR, "-d", classes, src], capture_output=True, text=True)
            if r.returncode != 0:
                raise HarnessError("javac failed: " + r.stderr)
    return data, classes


class _Finder(importlib.abc.MetaPathFinder):
    def find_spec(self, name, path, target=None):
        if name == MOD:
            return importlib.util.spec_from_file_location(name, os.path.join(ENG, "vtl_cpp_parser_shim.py"))
        return None


_installed = False


def install(repo=None):
    global _installed
    if _installed:
        return
    repo = repo or os.environ.get("VERIF_REPO", "/repo")
    data, classes = prepare(repo)
    os.environ["VERIF_SHIM_DATA"] = data
    os.environ["VERIF_SHIM_CLASSES"] = classes
    os.environ["VERIF_SHIM_JAR"] = JAR
    sys.meta_path.insert(0, _Finder())
    src = os.path.join(repo, "src")
    if src not in sys.path:
        sys.path.insert(0, src)
    _installed = True
