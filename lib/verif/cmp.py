"""Comparison rules (DESIGN.md §2.7): results as sets of datapoints keyed by identifiers,
numbers with relative tolerance, NaN/NA/None all null."""
import datetime, decimal, fractions, math
from verif.eng import norm

REL = 1e-9


def canon_value(v):
    v = norm(v)
    if v is None:
        return None
    if isinstance(v, bool):
        return v
    if isinstance(v, (decimal.Decimal, fractions.Fraction)):
        return float(v)
    if isinstance(v, (datetime.datetime, datetime.date)):
        return v.isoformat()
    if isinstance(v, (int, float, str)):
        return v
    return repr(v)


def values_equal(a, b, rel=REL):
    if a is None or b is None:
        return a is None and b is None
    if isinstance(a, bool) or isinstance(b, bool):
        return isinstance(a, bool) and isinstance(b, bool) and a == b
    if isinstance(a, (int, float)) and isinstance(b, (int, float)):
        if a == b:
            return True
        if isinstance(a, float) and isinstance(b, float) and math.isinf(a) and math.isinf(b):
            return a == b
        return abs(a - b) <= rel * max(1.0, abs(a), abs(b))
    return type(a) == type(b) and a == b


def canon_result(res):
    """engine result object (Dataset | Scalar) -> plain comparable structure."""
    from vtlengine.Model import Dataset, Scalar
    if isinstance(res, Scalar):
        return {"kind": "scalar", "type": getattr(res.data_type, "__name__", str(res.data_type)), "value": canon_value(res.value)}
    comps = [(n, c.role.name, getattr(c.data_type, "__name__", str(c.data_type)), bool(c.nullable)) for n, c in res.components.items()]
    out = {"kind": "dataset", "components": comps, "columns": None, "rows": None}
    if res.data is not None:
        cols = list(res.data.columns)
        out["columns"] = cols
        out["rows"] = [[canon_value(v) for v in rec] for rec in res.data.itertuples(index=False, name=None)]
    return out


def canon_results(results):
    return {k: canon_result(v) for k, v in results.items()}


def keyed(cres):
    """-> (idcols, {key: row_dict}, dupkeys)"""
    cols = cres["columns"]
    ids = [n for n, role, _, _ in cres["components"] if role == "IDENTIFIER" and n in cols]
    ix = [cols.index(i) for i in ids]
    d, dups = {}, []
    for r in cres["rows"]:
        k = tuple(r[i] for i in ix)
        if k in d:
            dups.append(k)
        d[k] = dict(zip(cols, r))
    return ids, d, dups


def diff_dataset(a, b, rel=REL, check_structure=True):
    """None if equal as keyed sets, else a short description of the first difference."""
    if a["kind"] != b["kind"]:
        return "kind %s vs %s" % (a["kind"], b["kind"])
    if a["kind"] == "scalar":
        if check_structure and a["type"] != b["type"]:
            return "scalar type %s vs %s" % (a["type"], b["type"])
        return None if values_equal(a["value"], b["value"], rel) else "scalar value %r vs %r" % (a["value"], b["value"])
    if check_structure and a["components"] != b["components"]:
        return "components %r vs %r" % (a["components"], b["components"])
    if (a["rows"] is None) != (b["rows"] is None):
        return "data presence differs"
    if a["rows"] is None:
        return None
    if sorted(a["columns"]) != sorted(b["columns"]):
        return "columns %r vs %r" % (a["columns"], b["columns"])
    if len(a["rows"]) != len(b["rows"]):
        return "row count %d vs %d" % (len(a["rows"]), len(b["rows"]))
    ida, da, dupa = keyed(a)
    idb, db, dupb = keyed(b)
    if not ida:
        # no identifiers: compare as multisets through a canonical sort
        ra = sorted((repr([r[a["columns"].index(c)] for c in sorted(a["columns"])]) for r in a["rows"]))
        rb = sorted((repr([r[b["columns"].index(c)] for c in sorted(b["columns"])]) for r in b["rows"]))
        if ra == rb:
            return None
        if len(a["rows"]) == 1:
            ra1 = dict(zip(a["columns"], a["rows"][0])); rb1 = dict(zip(b["columns"], b["rows"][0]))
            for c in ra1:
                if not values_equal(ra1[c], rb1[c], rel):
                    return "row without identifiers differs at %s: %r vs %r" % (c, ra1[c], rb1[c])
            return None
        return "multiset of rows differs"
    if dupa or dupb:
        return "duplicate identifier keys %r / %r" % (dupa[:2], dupb[:2])
    if set(da) != set(db):
        only_a = sorted(set(da) - set(db), key=repr)[:3]; only_b = sorted(set(db) - set(da), key=repr)[:3]
        return "key sets differ: only first %r, only second %r" % (only_a, only_b)
    for k, ra in da.items():
        rb = db[k]
        for c, va in ra.items():
            if not values_equal(va, rb[c], rel):
                return "key %r component %s: %r vs %r" % (k, c, va, rb[c])
    return None


def diff_results(ra, rb, rel=REL, check_structure=True):
    if set(ra) != set(rb):
        return "result names %r vs %r" % (sorted(ra), sorted(rb))
    for k in sorted(ra):
        d = diff_dataset(ra[k], rb[k], rel, check_structure)
        if d:
            return "%s: %s" % (k, d)
    return None
