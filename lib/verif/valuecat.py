"""Labelled catalogue of input cell spellings per component type (docs/data_types.rst).

Each entry: (class label, text, verdict, denotes)
  verdict: True  = documented valid representation (must be accepted; `denotes` = documented output form, or None when the docs do not fix it)
           False = not a valid representation under the documented input formats / the calendar (must be rejected with a VTL input error)
           None  = the documentation does not settle it (only agreement properties C18 / C20 use it)
"""
CATALOGUE = {
    "Integer": [
        ("int.plain", "42", True, 42), ("int.zero", "0", True, 0), ("int.negative", "-7", True, -7),
        ("int.fractional", "3.5", False, None), ("int.text", "abc", False, None), ("int.hex", "0x1F", False, None),
        ("int.point_zero", "3.0", None, None), ("int.exponent", "1e3", None, None), ("int.padded", " 7", None, None), ("int.plus", "+5", None, None),
        ("int.1e18", "1000000000000000000", None, None), ("int.2_62", "4611686018427387904", None, None), ("int.neg_1e18", "-1000000000000000000", None, None), ("int.2_53_plus_1", "9007199254740993", None, None),
        ("int.int64_max", "9223372036854775807", None, None), ("int.beyond_int64", "9223372036854775808", False, None),
    ],
    "Number": [
        ("num.decimal", "3.14", True, 3.14), ("num.integer", "42", True, 42.0), ("num.negative", "-0.5", True, -0.5), ("num.exponent", "1e5", True, 100000.0),
        ("num.text", "abc", False, None), ("num.comma", "1,5", False, None),
        ("num.11_decimals_tie", "5.99965727385", None, None), ("num.10_decimals", "0.1234567891", None, None), ("num.12_decimals", "2.000000000005", None, None), ("num.17_digits", "12345678.123456789", None, None),
        ("num.near_decimal_limit", "999999999999999900", None, None), ("num.1e18", "1e18", None, None),
        ("num.nan", "NaN", None, None), ("num.inf", "inf", None, None), ("num.padded", " 1.5", None, None),
    ],
    "Boolean": [
        ("bool.true", "true", True, True), ("bool.false", "false", True, False), ("bool.upper", "TRUE", True, True), ("bool.mixed", "False", True, False), ("bool.one", "1", True, True), ("bool.zero", "0", True, False),
        ("bool.word", "maybe", False, None), ("bool.other_digit", "2", False, None), ("bool.yes", "yes", False, None),
        ("bool.padded", " true", None, None),
    ],
    "String": [("str.plain", "abc", True, "abc"), ("str.spaces", " a b ", True, " a b "), ("str.comma", "a,b", True, "a,b"), ("str.unicode", "ünï€", True, "ünï€"),
               ("str.embedded_quote", 'a"b', True, 'a"b'), ("str.digits", "007", True, "007")],
    "Date": [
        ("date.plain", "2020-01-15", True, "2020-01-15"), ("date.leap_day", "2020-02-29", True, "2020-02-29"), ("date.space_time", "2020-01-15 10:30:00", True, "2020-01-15T10:30:00"),
        ("date.t_time", "2020-01-15T10:30:00", True, "2020-01-15T10:30:00"), ("date.tz_z", "2020-01-15T10:30:00Z", True, "2020-01-15T10:30:00"), ("date.tz_offset", "2020-01-15T10:30:00+02:00", True, "2020-01-15T10:30:00"),
        ("date.year_min", "1800-01-01", True, "1800-01-01"), ("date.year_max", "9999-12-31", True, "9999-12-31"),
        ("date.month_13", "2020-13-01", False, None), ("date.feb_30", "2020-02-30", False, None), ("date.feb_29_common_year", "2021-02-29", False, None), ("date.partial_time", "2020-01-15 10:30", False, None),
        ("date.year_lt_1800", "1799-12-31", False, None), ("date.year_gt_9999", "10000-01-01", False, None), ("date.text", "abc", False, None), ("date.slashes", "2020/01/15", False, None), ("date.hour_25", "2020-01-15T25:00:00", False, None),
        ("date.one_digit_md", "2020-1-5", None, None),
    ],
    "Time_Period": [
        ("period.year", "2020", True, "2020"), ("period.annual_a", "2020A", True, "2020"), ("period.annual_a1", "2020-A1", True, "2020"), ("period.semester", "2020S2", True, "2020S2"), ("period.semester_h", "2020-S1", True, "2020S1"),
        ("period.quarter", "2020Q4", True, "2020Q4"), ("period.quarter_h", "2020-Q1", True, "2020Q1"), ("period.month_m", "2020M1", True, "2020M1"), ("period.month_mm", "2020M12", True, "2020M12"), ("period.month_iso", "2020-01", True, "2020M1"),
        ("period.month_h", "2020-M03", True, "2020M3"), ("period.week", "2020W1", True, "2020W1"), ("period.week_h", "2020-W01", True, "2020W1"), ("period.week53_in_53_week_year", "2020-W53", True, "2020W53"),
        ("period.day", "2020D1", True, "2020D1"), ("period.day_h", "2020-D001", True, "2020D1"), ("period.day366_leap", "2020-D366", True, "2020D366"), ("period.date", "2020-01-15", True, "2020D15"),
        ("period.month_13", "2020-M13", False, None), ("period.month_13_compact", "2020M13", False, None), ("period.month_0", "2020M0", False, None), ("period.week_54", "2020-W54", False, None),
        ("period.week53_in_52_week_year", "2021-W53", False, None), ("period.day366_common_year", "2021-D366", False, None), ("period.day_367", "2020-D367", False, None), ("period.day_0", "2020D0", False, None),
        ("period.quarter_5", "2020Q5", False, None), ("period.semester_3", "2020S3", False, None), ("period.text", "abc", False, None), ("period.week_0", "2020W0", False, None),
    ],
    "Time": [
        ("interval.plain", "2020-01-01/2020-12-31", True, "2020-01-01/2020-12-31"), ("interval.same_day", "2020-05-05/2020-05-05", True, "2020-05-05/2020-05-05"),
        ("interval.year_only", "2020", True, "2020-01-01/2020-12-31"), ("interval.month_only", "2020-02", True, "2020-02-01/2020-02-29"),
        ("interval.reversed", "2020-12-31/2020-01-01", False, None), ("interval.bad_month", "2020-13-01/2020-13-02", False, None), ("interval.text", "abc", False, None), ("interval.single_date", "2020-01-01", None, None),
    ],
    "Duration": [("duration.A", "A", True, "A"), ("duration.S", "S", True, "S"), ("duration.Q", "Q", True, "Q"), ("duration.M", "M", True, "M"), ("duration.W", "W", True, "W"), ("duration.D", "D", True, "D"),
                 ("duration.unknown_letter", "X", False, None), ("duration.two_letters", "AA", False, None), ("duration.lowercase", "a", None, None)],
}
VALID_FILL = {"Integer": "1", "Number": "1.5", "Boolean": "true", "String": "x", "Date": "2020-01-01", "Time_Period": "2020Q1", "Time": "2020-01-01/2020-12-31", "Duration": "A"}


def native_value(typ, text):
    """Native python value for a DataFrame / Parquet column of that type; ValueError when the text is not the canonical
    spelling of a native value (then the native forms would not hold the same content and are skipped)."""
    if typ == "Integer":
        v = int(text)
        if str(v) != text or not (-2**63 <= v < 2**63):
            raise ValueError(text)
        return v
    if typ == "Number":
        v = float(text)
        if v != v or v in (float("inf"), float("-inf")) or text.strip() != text or not text.replace(".", "", 1).replace("-", "", 1).replace("e", "", 1).isdigit():
            raise ValueError(text)
        return v
    if typ == "Boolean":
        if text == "true":
            return True
        if text == "false":
            return False
        raise ValueError(text)
    if typ == "String":
        return text
    raise ValueError("no native form for " + typ)
