"""Upstream corpus harvested statically from /repo/tests at check time (DESIGN.md §2.5)."""
import glob, json, os, re
from verif import core

NONDET = re.compile(r"\b(current_date|random)\b")
EVAL = re.compile(r"\beval\s*\(")


def harvest(repo=None):
    repo = repo or core.REPO
    root = os.path.join(repo, "tests")
    out = []
    for vtl in sorted(glob.glob(os.path.join(root, "**", "data", "vtl", "*.vtl"), recursive=True)):
        base = os.path.dirname(os.path.dirname(vtl))
        code = os.path.basename(vtl)[:-4]
        js = sorted(glob.glob(os.path.join(base, "DataStructure", "input", glob.escape(code) + "-*.json")),
                    key=lambda p: [int(x) if x.isdigit() else x for x in re.split(r"(\d+)", os.path.basename(p))])
        if not js:
            continue
        dps, ok, scalars = {}, True, []
        for j in js:
            try:
                st = json.load(open(j, encoding="utf-8"))
            except Exception:
                ok = False
                break
            csvp = os.path.join(base, "DataSet", "input", os.path.basename(j)[:-5] + ".csv")
            for d in st.get("datasets", []) or []:
                dps[d["name"]] = csvp if os.path.exists(csvp) else None
            scalars += [s["name"] for s in st.get("scalars", []) or []]
        if not ok:
            continue
        try:
            script = open(vtl, encoding="utf-8").read()
        except Exception:
            continue
        vds = sorted(glob.glob(os.path.join(base, "ValueDomain", "*.json")))
        routines = []
        for s in sorted(glob.glob(os.path.join(base, "sql", "*.sql"))):
            routines.append({"name": os.path.basename(s)[:-4], "query": open(s, encoding="utf-8").read()})
        out.append(dict(id=os.path.relpath(vtl, root), script=script, structs=js, dps=dps, vds=vds, routines=routines,
                        scalars=scalars, nondet=bool(NONDET.search(script)), eval=bool(EVAL.search(script))))
    return out


def baseline_ids():
    p = os.path.join(core.VERIF, "corpus_baseline.txt")
    if not os.path.exists(p):
        return None
    return [l.strip() for l in open(p) if l.strip()]


def times():
    """id -> seconds of one run() measured when corpus_baseline.txt was built (coverage planning only)."""
    p = os.path.join(core.VERIF, "corpus_times.txt")
    out = {}
    if os.path.exists(p):
        for l in open(p):
            f = l.rstrip("\n").split("\t")
            if len(f) == 3:
                out[f[0]] = float(f[2])
    return out


def executable_cases(cases=None, include_nondet=False, max_s=None):
    """Cases whose id is in the committed executable baseline (order preserved)."""
    cases = cases if cases is not None else harvest()
    ids = baseline_ids()
    if ids is None:
        return [c for c in cases if include_nondet or not c["nondet"]]
    s = set(ids)
    t = times() if max_s is not None else {}
    return [c for c in cases if c["id"] in s and (include_nondet or not c["nondet"]) and (max_s is None or t.get(c["id"], 0) <= max_s)]


def run_kwargs(case, script=None, dps=None):
    kw = dict(script=case["script"] if script is None else script,
              data_structures=[__import__("pathlib").Path(p) for p in case["structs"]],
              datapoints={k: (__import__("pathlib").Path(v) if isinstance(v, str) else v) for k, v in (dps if dps is not None else case["dps"]).items()},
              return_only_persistent=False)
    if case["vds"]:
        kw["value_domains"] = [__import__("pathlib").Path(p) for p in case["vds"]]
    if case["routines"]:
        kw["external_routines"] = case["routines"] if len(case["routines"]) > 1 else case["routines"][0]
    return kw


def sa_kwargs(case, script=None):
    kw = run_kwargs(case, script)
    kw.pop("datapoints"); kw.pop("return_only_persistent")
    return kw


def rotate(cases, seed, n):
    """Deterministic seed-rotated slice of n cases."""
    if n >= len(cases):
        return list(cases)
    start = (seed * 7919) % len(cases)
    step = max(1, len(cases) // n)
    idx = [(start + i * step) % len(cases) for i in range(n)]
    seen, out = set(), []
    for i in idx:
        if i not in seen:
            seen.add(i); out.append(cases[i])
    return out
