"""Runner core: context, evidence, known findings, replay files, exit codes, worker pool.

Exit codes: 0 property held on everything explored (KNOWN-FINDING lines allowed),
1 at least one VIOLATION line, 2 harness error (never reported as a violation).
"""
import collections, hashlib, json, multiprocessing, os, re, shutil, sys, time, traceback

VERIF = os.path.dirname(os.path.dirname(os.path.dirname(os.path.abspath(__file__))))
REPO = os.environ.get("VERIF_REPO", "/repo")
OUT = os.environ.get("VERIF_OUT", VERIF)  # evidence/ and replays/ go here (seeded-mutant runs use a scratch dir)


class HarnessError(Exception):
    pass


def fingerprint(obj):
    return hashlib.sha1(json.dumps(obj, sort_keys=True, default=repr).encode()).hexdigest()[:16]


def slug(s):
    return re.sub(r"[^A-Za-z0-9_.-]+", "_", s)[:80].strip("_") or "case"


def load_known():
    p = os.path.join(VERIF, "known_findings.json")
    if not os.path.exists(p):
        return []
    return json.load(open(p))["findings"]


class Part:
    """Mergeable result of one shard of work (picklable)."""

    def __init__(self):
        self.evaluations = 0
        self.nontrivial = set()
        self.samples = []
        self.hist = collections.Counter()
        self.failures = {}  # key -> (size, case, what)
        self.excluded = collections.Counter()
        self.notes = []

    def case(self, case_fp, nontrivial, sample=None, labels=()):
        self.evaluations += 1
        if nontrivial:
            self.nontrivial.add(case_fp if isinstance(case_fp, str) else fingerprint(case_fp))
        if sample is not None and len(self.samples) < 6:
            self.samples.append(sample)
        for l in labels:
            self.hist[l] += 1

    def fail(self, key, case, what):
        size = len(json.dumps(case, default=repr))
        old = self.failures.get(key)
        if old is None or size < old[0]:
            self.failures[key] = (size, case, what)

    def merge(self, other):
        self.evaluations += other.evaluations
        self.nontrivial |= other.nontrivial
        for s in other.samples:
            if len(self.samples) < 10:
                self.samples.append(s)
        self.hist.update(other.hist)
        self.excluded.update(other.excluded)
        self.notes.extend(other.notes)
        for k, v in other.failures.items():
            old = self.failures.get(k)
            if old is None or v[0] < old[0]:
                self.failures[k] = v
        return self


class Ctx:
    def __init__(self, pid, tier, seed, level="exploration"):
        self.pid, self.tier, self.seed, self.level = pid, tier, seed, level
        self.part = Part()
        self.t0 = time.time()
        self.rule = ""
        self.assumptions = []
        self.extra = {}
        self.exhaustive = None
        self.known = [k for k in load_known() if k["property"] == pid]
        self.workdir = os.path.join(VERIF, ".work", pid, str(os.getpid()))
        os.makedirs(self.workdir, exist_ok=True)

    @property
    def quick(self):
        return self.tier == "quick"

    def known_status(self, key):
        """-> entry whose `match` regex matches the bucket key and whose status is 'known'."""
        for k in self.known:
            if k.get("status") == "known" and re.fullmatch(k["match"], key):
                return k
        return None

    def excluded_keys(self):
        """Exclusion tokens active on this tree (only for status == known)."""
        out = set()
        for k in self.known:
            if k.get("status") == "known":
                out.update(k.get("exclude", []))
        return out

    def merge(self, parts):
        for p in parts:
            self.part.merge(p)

    # ---- finishing -------------------------------------------------------
    def finish(self):
        part = self.part
        viol = 0
        lines = []
        seen_known = set()
        for key in sorted(part.failures):
            size, case, what = part.failures[key]
            k = self.known_status(key)
            if k is not None:
                if k["key"] not in seen_known:
                    seen_known.add(k["key"])
                    lines.append("KNOWN-FINDING: property=%s %s [%s]" % (self.pid, k["what"], k["key"]))
                continue
            viol += 1
            d = os.path.join(OUT, "replays", self.pid)
            os.makedirs(d, exist_ok=True)
            path = os.path.join(d, slug(key) + ".json")
            json.dump({"property": self.pid, "key": key, "what": what, "case": case, "seed": self.seed, "tier": self.tier}, open(path, "w"), indent=1, default=repr)
            lines.append("VIOLATION property=%s replay=%s" % (self.pid, os.path.relpath(path, OUT)))
            lines.append("  key=%s what=%s" % (key, str(what)[:400]))
        cov = {
            "evaluations": part.evaluations,
            "distinct_nontrivial": len(part.nontrivial),
            "rule": self.rule,
            "samples": part.samples[:10],
            "histogram": dict(part.hist.most_common(60)),
            "excluded_by_known_finding": dict(part.excluded),
            "known_findings_reported": sorted(seen_known),
            "violation_keys": [k for k in sorted(part.failures) if self.known_status(k) is None][:50],
        }
        if part.notes:
            cov["notes"] = part.notes[:20]
        if self.exhaustive is not None:
            cov["exhaustive"] = self.exhaustive
        cov.update(self.extra)
        ev = {
            "property_id": self.pid, "tier": self.tier, "seed": self.seed, "level": self.level,
            "coverage": cov, "assumptions": self.assumptions, "wall_s": round(time.time() - self.t0, 2), "violations": viol,
        }
        os.makedirs(os.path.join(OUT, "evidence"), exist_ok=True)
        json.dump(ev, open(os.path.join(OUT, "evidence", self.pid + ".json"), "w"), indent=1, default=repr)
        for l in lines:
            print(l)
        print("%s tier=%s seed=%d evaluations=%d nontrivial=%d violations=%d wall=%.1fs" % (
            self.pid, self.tier, self.seed, part.evaluations, len(part.nontrivial), viol, time.time() - self.t0))
        shutil.rmtree(self.workdir, ignore_errors=True)
        return 1 if viol else 0


# ---- worker pool -----------------------------------------------------------
def _worker_init(env):
    os.environ.update(env)
    sys.path.insert(0, os.path.join(VERIF, "lib"))
    sys.path.insert(0, VERIF)
    from verif import shim
    shim.install()


def _call(args):
    modname, fname, a = args
    import importlib
    try:
        m = importlib.import_module(modname)
        return ("ok", getattr(m, fname)(*a))
    except BaseException as e:  # noqa
        return ("err", "%s: %s\n%s" % (type(e).__name__, e, traceback.format_exc()))


def pmap(modname, fname, arglist, procs=None, chunksize=1):
    """Run module.fname(*args) for each args in arglist over a spawn pool.  A raised
    exception inside a shard is a harness error."""
    procs = procs or min(16, max(1, len(arglist)))
    env = {k: v for k, v in os.environ.items() if k.startswith(("VERIF_", "MEANINGFUL_", "PYTHONHASHSEED", "VTL_"))}
    if procs == 1 or os.environ.get("VERIF_SERIAL") == "1":
        out = [_call((modname, fname, a)) for a in arglist]
    else:
        # ProcessPoolExecutor (not multiprocessing.Pool): a worker that dies (killed, out of memory) breaks the pool with an
        # exception instead of leaving map() waiting forever; that is a harness error (exit 2), never a verdict
        import concurrent.futures as cf
        ctx = multiprocessing.get_context("spawn")
        try:
            with cf.ProcessPoolExecutor(max_workers=procs, mp_context=ctx, initializer=_worker_init, initargs=(env,)) as pool:
                out = list(pool.map(_call, [(modname, fname, a) for a in arglist], chunksize=chunksize))
        except cf.process.BrokenProcessPool as e:
            raise HarnessError("a worker process died (killed or out of memory): %s" % e)
    res = []
    for st, v in out:
        if st == "err":
            raise HarnessError("worker failed: " + v)
        res.append(v)
    return res
