"""refvtl — small, slow, obviously-written reference evaluator (no pandas, no SQL, no vtlengine import).

Values: None, int, fractions.Fraction (Number), str, bool.  A dataset is (comps, rows):
comps = ordered dict name -> (role, type) with role in I/M/A, rows = list of dict name -> value.
Expression IR (tuples):
  ("lit", type, v) ("comp", name) ("un", op, e) ("bin", op, a, b) ("fn", name, [args]) ("if", c, a, b)
  ("case", [(cond, val)...], else) ("in", e, [values], negate) ("between", e, lo, hi) ("isnull", e) ("nvl", a, b)
Dataset IR:
  ("ds", name) ("dsbin", op, A, B) ("dsscalar", op, A, scalar_expr, scalar_on_left) ("dsun", op, A) ("dsfn", name, A, [params])
  ("clause", kind, A, payload)
"""
import math
from fractions import Fraction


class VTLError(Exception):
    """The operation is one VTL defines as a runtime error (e.g. division by zero)."""


class Unsupported(Exception):
    pass


NUM = ("Integer", "Number")


class _Err:
    """Value of an operation VTL defines as a runtime error (division by zero).  It propagates through every operator;
    the engine must raise a VTL error if such a value reaches the result (or a filter condition); if the datapoint
    carrying it is dropped before (no partner in a later join, filtered out), both raising and not raising are accepted."""
    def __repr__(self):
        return "ERR"


ERR = _Err()
SEEN = {"err": 0}


def _num(v):
    return isinstance(v, (int, Fraction)) and not isinstance(v, bool)


def to_float(v):
    return float(v) if isinstance(v, Fraction) else v


def lit_value(typ, v):
    if v is None:
        return None
    if typ == "Number":
        return Fraction(str(v)) if not isinstance(v, Fraction) else v
    return v


def kleene_and(a, b):
    if a is False or b is False:
        return False
    if a is None or b is None:
        return None
    return True


def kleene_or(a, b):
    if a is True or b is True:
        return True
    if a is None or b is None:
        return None
    return False


def round_half_up(x, n):
    q = Fraction(10) ** n
    y = x * q
    f = math.floor(y)
    r = y - f
    if r > Fraction(1, 2) or (r == Fraction(1, 2) and y > 0):
        f += 1
    elif r == Fraction(1, 2) and y < 0:
        f = f  # -2.5 -> -3 under half away from zero: floor(-2.5) = -3 already
    return Fraction(f) / q


def apply_bin(op, a, b):
    if a is ERR or b is ERR:
        return ERR
    if op in ("and", "or", "xor"):
        if op == "and":
            return kleene_and(a, b)
        if op == "or":
            return kleene_or(a, b)
        if a is None or b is None:
            return None
        return a != b
    if op == "/" and a is None and b is not None and b == 0:
        # null divided by zero: null (null operand) or a division-by-zero error - not settled by the offline sources; either outcome is accepted
        SEEN["err"] += 1
        return None
    if a is None or b is None:
        return None
    if op == "+":
        return a + b
    if op == "-":
        return a - b
    if op == "*":
        return a * b
    if op == "/":
        if b == 0:
            SEEN["err"] += 1
            return ERR
        return Fraction(a) / Fraction(b)
    if op == "mod":
        if b == 0:
            raise Unsupported("mod by zero")
        return a - b * math.floor(Fraction(a) / Fraction(b)) if (a >= 0 and b > 0) else _unsupported("mod with negatives")
    if op == "||":
        return a + b
    if op in ("=", "<>", "<", "<=", ">", ">="):
        if isinstance(a, bool) != isinstance(b, bool):
            raise Unsupported("bool vs non-bool comparison")
        return {"=": a == b, "<>": a != b, "<": a < b, "<=": a <= b, ">": a > b, ">=": a >= b}[op]
    if op == "power":
        try:
            return Fraction(a) ** b if isinstance(b, int) and abs(b) <= 8 and a != 0 else _flt(math.pow(float(a), float(b)))
        except (ValueError, ZeroDivisionError, OverflowError):
            raise Unsupported("power domain")
    if op == "log":
        if a <= 0 or b <= 0 or b == 1:
            raise Unsupported("log domain")
        return _flt(math.log(float(a)) / math.log(float(b)))
    raise Unsupported(op)


def _unsupported(msg):
    raise Unsupported(msg)


def _flt(x):
    return Fraction(x)


def apply_un(op, a):
    if a is ERR:
        return ERR
    if op == "not":
        return None if a is None else (not a)
    if a is None:
        return None
    if op == "+":
        return a
    if op == "-":
        return -a
    raise Unsupported(op)


def apply_fn(name, args):
    if any(x is ERR for x in args):
        return ERR
    a = args[0] if args else None
    if name == "isnull":
        return a is None
    if name == "nvl":
        return args[1] if a is None else a
    if any(x is None for x in args):
        return None
    if name == "abs":
        return abs(a)
    if name == "ceil":
        return math.ceil(a)
    if name == "floor":
        return math.floor(a)
    if name == "round":
        n = args[1] if len(args) > 1 else 0
        r = round_half_up(Fraction(a), n)
        return int(r) if len(args) == 1 else r
    if name == "trunc":
        n = args[1] if len(args) > 1 else 0
        q = Fraction(10) ** n
        y = Fraction(a) * q
        t = math.floor(y) if y >= 0 else -math.floor(-y)
        r = Fraction(t) / q
        return int(r) if len(args) == 1 else r
    if name == "exp":
        return _flt(math.exp(float(a)))
    if name == "ln":
        if a <= 0:
            raise Unsupported("ln domain")
        return _flt(math.log(float(a)))
    if name == "sqrt":
        if a < 0:
            raise Unsupported("sqrt domain")
        return _flt(math.sqrt(float(a)))
    if name == "length":
        return len(a)
    if name == "trim":
        return a.strip(" ")
    if name == "ltrim":
        return a.lstrip(" ")
    if name == "rtrim":
        return a.rstrip(" ")
    if name == "upper":
        return a.upper()
    if name == "lower":
        return a.lower()
    if name == "substr":
        start = args[1] if len(args) > 1 else 1
        if start < 1:
            raise Unsupported("substr start < 1")
        if len(args) > 2:
            if args[2] < 0:
                raise Unsupported("substr negative length")
            return a[start - 1:start - 1 + args[2]]
        return a[start - 1:]
    if name == "replace":
        if args[1] == "":
            raise Unsupported("replace empty pattern")
        return a.replace(args[1], args[2] if len(args) > 2 else "")
    if name == "instr":
        pat = args[1]
        start = args[2] if len(args) > 2 else 1
        occ = args[3] if len(args) > 3 else 1
        if pat == "" or start < 1 or occ < 1:
            raise Unsupported("instr params")
        pos = start - 1
        idx = -1
        for _ in range(occ):
            idx = a.find(pat, pos)
            if idx < 0:
                return 0
            pos = idx + 1
        return idx + 1
    raise Unsupported(name)


def ev(e, row):
    k = e[0]
    if k == "lit":
        return lit_value(e[1], e[2])
    if k == "comp":
        return row[e[1]]
    if k == "un":
        return apply_un(e[1], ev(e[2], row))
    if k == "bin":
        return apply_bin(e[1], ev(e[2], row), ev(e[3], row))
    if k == "fn":
        return apply_fn(e[1], [ev(x, row) for x in e[2]])
    if k == "isnull":
        v = ev(e[1], row)
        return ERR if v is ERR else v is None
    if k == "nvl":
        a = ev(e[1], row)
        return ev(e[2], row) if a is None else a
    if k == "if":
        c = ev(e[1], row)
        if c is ERR:
            return ERR
        return ev(e[2], row) if c is True else ev(e[3], row)
    if k == "case":
        for c, v in e[1]:
            cv = ev(c, row)
            if cv is ERR:
                return ERR
            if cv is True:
                return ev(v, row)
        return ev(e[2], row)
    if k == "in":
        v = ev(e[1], row)
        if v is ERR:
            return ERR
        if v is None:
            return None
        vals = [lit_value(t, x) for t, x in e[2]]
        r = any(v == x for x in vals)
        return (not r) if e[3] else r
    if k == "between":
        v, lo, hi = ev(e[1], row), ev(e[2], row), ev(e[3], row)
        if v is ERR or lo is ERR or hi is ERR:
            return ERR
        if v is None or lo is None or hi is None:
            return None
        return lo <= v <= hi
    raise Unsupported(k)


# ---- datasets -------------------------------------------------------------------
def ids_of(comps):
    return [n for n, (r, t) in comps.items() if r == "I"]


def measures_of(comps):
    return [n for n, (r, t) in comps.items() if r == "M"]


def eval_ds(ir, env, scalars=None):
    """-> (comps, rows).  env: name -> (comps, rows)."""
    k = ir[0]
    if k == "ds":
        comps, rows = env[ir[1]]
        return dict(comps), [dict(r) for r in rows]
    if k == "dsbin":
        op, (ca, ra), (cb, rb) = ir[1], eval_ds(ir[2], env, scalars), eval_ds(ir[3], env, scalars)
        ia, ib = ids_of(ca), ids_of(cb)
        common = [i for i in ia if i in ib]
        if set(ia) <= set(ib):
            base_c, base_ids = cb, ib
        elif set(ib) <= set(ia):
            base_c, base_ids = ca, ia
        else:
            raise Unsupported("identifier sets not nested")
        meas = measures_of(ca)
        if sorted(meas) != sorted(measures_of(cb)):
            raise Unsupported("different measures")
        cmpop = op in ("=", "<>", "<", "<=", ">", ">=")
        out_c = {i: base_c[i] for i in base_ids}
        if cmpop:
            if len(meas) != 1:
                raise Unsupported("comparison on multi-measure dataset")
            out_c["bool_var"] = ("M", "Boolean")
        else:
            for m in meas:
                out_c[m] = ("M", _res_type(op, ca[m][1], cb[m][1]))
        index = {}
        for r in rb:
            index.setdefault(tuple(r[i] for i in common), []).append(r)
        rows = []
        for r in ra:
            for s in index.get(tuple(r[i] for i in common), []):
                o = {i: (r[i] if i in r else s[i]) for i in base_ids}
                if cmpop:
                    o["bool_var"] = apply_bin(op, r[meas[0]], s[meas[0]])
                else:
                    for m in meas:
                        o[m] = apply_bin(op, r[m], s[m])
                rows.append(o)
        return out_c, rows
    if k == "dsscalar":
        op, (ca, ra), sc, left = ir[1], eval_ds(ir[2], env, scalars), ir[3], ir[4]
        sv = ev(sc, {})
        meas = measures_of(ca)
        cmpop = op in ("=", "<>", "<", "<=", ">", ">=")
        out_c = {i: ca[i] for i in ids_of(ca)}
        st = sc[1] if sc[0] == "lit" else "Number"
        if cmpop:
            if len(meas) != 1:
                raise Unsupported("comparison on multi-measure dataset")
            out_c["bool_var"] = ("M", "Boolean")
        else:
            for m in meas:
                out_c[m] = ("M", _res_type(op, ca[m][1], st))
        rows = []
        for r in ra:
            o = {i: r[i] for i in ids_of(ca)}
            if cmpop:
                o["bool_var"] = apply_bin(op, sv, r[meas[0]]) if left else apply_bin(op, r[meas[0]], sv)
            else:
                for m in meas:
                    o[m] = apply_bin(op, sv, r[m]) if left else apply_bin(op, r[m], sv)
            rows.append(o)
        return out_c, rows
    if k == "dsun":
        op, (ca, ra) = ir[1], eval_ds(ir[2], env, scalars)
        out_c = {i: ca[i] for i in ids_of(ca)}
        meas = measures_of(ca)
        for m in meas:
            out_c[m] = ca[m]
        return out_c, [dict({i: r[i] for i in ids_of(ca)}, **{m: apply_un(op, r[m]) for m in meas}) for r in ra]
    if k == "dsfn":
        name, (ca, ra), params = ir[1], eval_ds(ir[2], env, scalars), ir[3]
        out_c = {i: ca[i] for i in ids_of(ca)}
        meas = measures_of(ca)
        pv = [ev(p, {}) for p in params]
        if name == "isnull":
            if len(meas) != 1:
                raise Unsupported("isnull multi-measure")
            out_c["bool_var"] = ("M", "Boolean")
            return out_c, [dict({i: r[i] for i in ids_of(ca)}, bool_var=r[meas[0]] is None) for r in ra]
        ren = {}
        for m in meas:
            t = _fn_type(name, ca[m][1], len(pv))
            # mono-measure dataset and the operator changes the measure type: the measure is renamed <type>_var
            out_name = m
            if len(meas) == 1 and t != ca[m][1] and not (name == "trunc" and len(pv) > 0) and not (name == "round" and len(pv) > 0):
                out_name = {"Integer": "int_var", "Number": "num_var", "String": "str_var", "Boolean": "bool_var"}[t]
            elif t != ca[m][1] and not (name in ("trunc", "round") and len(pv) > 0):
                raise Unsupported("type-changing function on multi-measure dataset")
            ren[m] = out_name
            out_c[out_name] = ("M", t)
        return out_c, [dict({i: r[i] for i in ids_of(ca)}, **{ren[m]: apply_fn(name, [r[m]] + pv) for m in meas}) for r in ra]
    if k == "clause":
        kind, (ca, ra), payload = ir[1], eval_ds(ir[2], env, scalars), ir[3]
        if kind == "filter":
            keep = []
            for r in ra:
                c = ev(payload, r)
                if c is ERR:
                    raise VTLError("runtime error inside a filter condition")
                if c is True:
                    keep.append(r)
            return ca, keep
        if kind == "calc":
            out_c = dict(ca)
            for name, role, typ, e in payload:
                if name in out_c and out_c[name][0] == "I":
                    raise Unsupported("calc overwriting identifier")
                out_c[name] = (role, typ)
            rows = []
            for r in ra:
                o = dict(r)
                for name, role, typ, e in payload:
                    o[name] = ev(e, r)
                rows.append(o)
            return out_c, rows
        if kind == "keep":
            out_c = {n: v for n, v in ca.items() if v[0] == "I" or n in payload}
            return out_c, [{n: r[n] for n in out_c} for r in ra]
        if kind == "drop":
            out_c = {n: v for n, v in ca.items() if n not in payload}
            return out_c, [{n: r[n] for n in out_c} for r in ra]
        if kind == "rename":
            m = dict(payload)
            out_c = {m.get(n, n): v for n, v in ca.items()}
            return out_c, [{m.get(n, n): v for n, v in r.items()} for r in ra]
        if kind == "sub":
            fixed = dict(payload)
            out_c = {n: v for n, v in ca.items() if n not in fixed}
            rows = [{n: r[n] for n in out_c} for r in ra if all(r[i] == lit_value(ca[i][1], tv[1]) for i, tv in fixed.items())]
            return out_c, rows
    raise Unsupported(k)


def _res_type(op, ta, tb):
    if op == "/":
        return "Number"
    if op in ("+", "-", "*", "mod"):
        return "Integer" if ta == "Integer" and tb == "Integer" else "Number"
    if op == "||":
        return "String"
    if op in ("and", "or", "xor"):
        return "Boolean"
    if op in ("power", "log"):
        return "Number"
    return ta


def _fn_type(name, t, nparams):
    if name in ("ceil", "floor"):
        return "Integer"
    if name in ("round", "trunc"):
        return "Integer" if nparams == 0 else "Number"
    if name in ("exp", "ln", "sqrt"):
        return "Number"
    if name in ("length", "instr"):
        return "Integer"
    return t


# ---- aggregations (C03) -----------------------------------------------------------
def aggregate(op, values):
    """VTL aggregate of a list of values (nulls ignored).  Exact rationals; sqrt at the end."""
    if any(v is ERR for v in values):
        return ERR
    vals = [v for v in values if v is not None]
    if op == "count":
        return len(vals)
    if not vals:
        return None
    if op == "sum":
        return sum(vals)
    if op == "avg":
        return Fraction(sum(Fraction(v) for v in vals)) / len(vals)
    if op == "min":
        return min(vals)
    if op == "max":
        return max(vals)
    if op == "median":
        s = sorted(Fraction(v) for v in vals)
        n = len(s)
        return s[n // 2] if n % 2 else (s[n // 2 - 1] + s[n // 2]) / 2
    n = len(vals)
    mean = Fraction(sum(Fraction(v) for v in vals)) / n
    ss = sum((Fraction(v) - mean) ** 2 for v in vals)
    if op in ("var_pop", "stddev_pop"):
        var = ss / n
    else:
        if n < 2:
            return None
        var = ss / (n - 1)
    if op.startswith("var"):
        return var
    return Fraction(math.sqrt(float(var)))


def agg_type(op, t):
    if op == "count":
        return "Integer"
    if op in ("sum", "min", "max"):
        return t
    return "Number"


def _having_ok(having, rows):
    if having is None:
        return True
    aggop, comp, cmpop, lit = having
    v = aggregate(aggop, [r[comp] for r in rows]) if comp is not None else len(rows)
    return apply_bin(cmpop, v, ev(lit, {})) is True


def eval_agg(ir, env):
    """("agg", op, A, mode, ids, having): mode in by/except/none."""
    _, op, a, mode, gids, having = ir
    ca, ra = eval_ds(a, env)
    ids = ids_of(ca)
    keep = [i for i in ids if i in gids] if mode == "by" else [i for i in ids if i not in gids] if mode == "except" else []
    meas = measures_of(ca)
    out_c = {i: ca[i] for i in keep}
    if op == "count":
        out_c["int_var"] = ("M", "Integer")
    else:
        for m in meas:
            out_c[m] = ("M", agg_type(op, ca[m][1]))
    groups = {}
    for r in ra:
        groups.setdefault(tuple(r[i] for i in keep), []).append(r)
    if not keep and not ra:
        raise Unsupported("aggregate of an empty dataset without grouping")
    rows = []
    for k, rs in groups.items():
        if not _having_ok(having, rs):
            continue
        o = dict(zip(keep, k))
        if op == "count":
            o["int_var"] = len(rs)
        else:
            for m in meas:
                o[m] = aggregate(op, [r[m] for r in rs])
        rows.append(o)
    return out_c, rows


def eval_aggr_clause(ir, env):
    """("aggrclause", A, [(name, role, op, comp)], mode, ids, having)"""
    _, a, items, mode, gids, having = ir
    ca, ra = eval_ds(a, env)
    ids = ids_of(ca)
    keep = [i for i in ids if i in gids] if mode == "by" else [i for i in ids if i not in gids]
    out_c = {i: ca[i] for i in keep}
    for name, role, op, comp in items:
        out_c[name] = (role, agg_type(op, ca[comp][1]) if comp else "Integer")
    if not keep and not ra:
        raise Unsupported("aggregate of an empty dataset without grouping")
    groups = {}
    for r in ra:
        groups.setdefault(tuple(r[i] for i in keep), []).append(r)
    rows = []
    for k, rs in groups.items():
        if not _having_ok(having, rs):
            continue
        o = dict(zip(keep, k))
        for name, role, op, comp in items:
            o[name] = aggregate(op, [r[comp] for r in rs]) if comp else len(rs)
        rows.append(o)
    return out_c, rows


_base_eval_ds = eval_ds


def eval_ds(ir, env, scalars=None):  # noqa: F811  (extends the dispatcher above)
    if ir[0] == "agg":
        return eval_agg(ir, env)
    if ir[0] == "aggrclause":
        return eval_aggr_clause(ir, env)
    if ir[0] == "setop":
        return eval_setop(ir, env)
    if ir[0] == "dsif":
        return eval_dsif(ir, env)
    if ir[0] == "join":
        return eval_join(ir, env)
    if ir[0] == "analytic":
        return eval_analytic(ir, env)
    return _base_eval_ds(ir, env, scalars)


# ---- set operators (C05) -----------------------------------------------------------
def eval_setop(ir, env):
    """("setop", op, [A, B, ...])"""
    _, op, operands = ir
    evs = [eval_ds(o, env) for o in operands]
    comps = evs[0][0]
    ids = ids_of(comps)
    keyed = []
    for c, rows in evs:
        if list(c) != list(comps) and sorted(c) != sorted(comps):
            raise Unsupported("set operands with different structures")
        d = {}
        for r in rows:
            d.setdefault(tuple(r[i] for i in ids), r)
        keyed.append(d)
    out = {}
    if op == "union":
        for d in keyed:
            for k, r in d.items():
                out.setdefault(k, r)
    elif op == "intersect":
        for k, r in keyed[0].items():
            if all(k in d for d in keyed[1:]):
                out[k] = r
    elif op == "setdiff":
        for k, r in keyed[0].items():
            if k not in keyed[1]:
                out[k] = r
    elif op == "symdiff":
        for k, r in keyed[0].items():
            if k not in keyed[1]:
                out[k] = r
        for k, r in keyed[1].items():
            if k not in keyed[0]:
                out[k] = r
    else:
        raise Unsupported(op)
    return dict(comps), [dict(r) for r in out.values()]


# ---- joins (C04) ---------------------------------------------------------------------
def eval_join(ir, env):
    """("join", kind, [(A, alias), ...], using or None, [body clauses (kind, payload)])
    kind in inner_join / left_join / full_join / cross_join.  Non-identifier components whose name occurs in more than
    one operand are exposed as alias#name."""
    _, kind, operands, using, body = ir
    evs = [(eval_ds(a, env), alias) for a, alias in operands]
    names = {}
    for (c, _), alias in evs:
        for n, (role, t) in c.items():
            if role != "I":
                names[n] = names.get(n, 0) + 1
    def cname(alias, n):
        return "%s#%s" % (alias, n) if names[n] > 1 else n
    if kind == "cross_join":
        raise Unsupported("cross_join")
    (c0, r0), a0 = evs[0]
    acc_c = {}
    for n, (role, t) in c0.items():
        acc_c[n if role == "I" else cname(a0, n)] = (role, t)
    acc_r = [{(n if c0[n][0] == "I" else cname(a0, n)): v for n, v in r.items()} for r in r0]
    for (c, rows), alias in evs[1:]:
        ids_acc = [n for n, (role, t) in acc_c.items() if role == "I"]
        ids_new = ids_of(c)
        keys = list(using) if using else [i for i in ids_new if i in ids_acc]
        if kind == "full_join" and sorted(ids_new) != sorted(ids_acc):
            raise Unsupported("full_join with different identifiers")
        if kind == "left_join" and not set(ids_new) <= set(ids_acc):
            raise Unsupported("left_join right identifiers not a subset")
        if kind == "inner_join" and not (set(ids_new) <= set(ids_acc) or set(ids_acc) <= set(ids_new)):
            raise Unsupported("inner_join identifiers not nested")
        new_non_ids = [(n, cname(alias, n)) for n in c if c[n][0] != "I"]
        extra_ids = [i for i in ids_new if i not in ids_acc]
        out_c = dict(acc_c)
        for i in extra_ids:
            out_c[i] = c[i]
        for n, cn in new_non_ids:
            out_c[cn] = c[n]
        # identifiers first, as VTL structures keep identifiers together (order is irrelevant for the comparison)
        index = {}
        for r in rows:
            index.setdefault(tuple(r[k] for k in keys), []).append(r)
        out_r, matched = [], set()
        for r in acc_r:
            k = tuple(r[x] for x in keys)
            ms = index.get(k, [])
            if ms:
                for m in ms:
                    o = dict(r)
                    for i in extra_ids:
                        o[i] = m[i]
                    for n, cn in new_non_ids:
                        o[cn] = m[n]
                    out_r.append(o)
                    matched.add(id(m))
            elif kind in ("left_join", "full_join"):
                o = dict(r)
                for i in extra_ids:
                    o[i] = None
                for n, cn in new_non_ids:
                    o[cn] = None
                out_r.append(o)
        if kind == "full_join":
            for m in rows:
                if id(m) not in matched:
                    o = {n: None for n in acc_c}
                    for i in ids_new:
                        o[i] = m[i]
                    for n, cn in new_non_ids:
                        o[cn] = m[n]
                    out_r.append(o)
        acc_c, acc_r = out_c, out_r
    cur = (acc_c, acc_r)
    for ckind, payload in body:
        if ckind == "aggr":
            items, mode, gids = payload
            cur = eval_aggr_clause(("aggrclause", ("ds", "__J__"), items, mode, gids, None), {"__J__": cur})
        else:
            cur = eval_ds(("clause", ckind, ("ds", "__J__"), payload), {"__J__": cur})
    # a qualified name alias#comp that is no longer ambiguous after the body is exposed as comp
    cc, rr = cur
    ren = {}
    for n in cc:
        if "#" in n:
            base = n.split("#", 1)[1]
            if sum(1 for m in cc if m == base or m.endswith("#" + base)) == 1:
                ren[n] = base
    if ren:
        cur = ({ren.get(n, n): v for n, v in cc.items()}, [{ren.get(n, n): v for n, v in r.items()} for r in rr])
    return cur


# ---- analytic functions (C06) -------------------------------------------------------
def _frame_rows(part, i, window, order_vals):
    """Indices of the rows of the (ordered) partition inside the frame of row i.
    window = (mode, start, end) with mode 'rows'|'range', bounds ('up'|'uf'|'cur'|('p', n)|('f', n))."""
    n = len(part)
    if window is None:
        return list(range(n))
    mode, s, e = window
    if mode == "rows":
        def pos(b, default):
            if b == "up": return 0
            if b == "uf": return n - 1
            if b == "cur": return i
            return i - b[1] if b[0] == "p" else i + b[1]
        lo, hi = pos(s, 0), pos(e, n - 1)
        return [j for j in range(max(lo, 0), min(hi, n - 1) + 1)]
    v = order_vals[i]
    def val(b, low):
        if b == "up": return None
        if b == "uf": return None
        if b == "cur": return v
        return v - b[1] if b[0] == "p" else v + b[1]
    lo = None if s == "up" else val(s, True)
    hi = None if e == "uf" else val(e, False)
    return [j for j in range(n) if (lo is None or order_vals[j] >= lo) and (hi is None or order_vals[j] <= hi)]


def eval_analytic(ir, env):
    """("analytic", op, A, measure or None, partition ids, [(id, 'asc'|'desc')], window or None, params, target or None)"""
    _, op, a, measure, partition, orderby, window, params, target = ir
    ca, ra = eval_ds(a, env)
    meas = [measure] if measure else measures_of(ca)
    out_c = dict(ca)
    def rtype(t):
        if op in ("count", "rank"): return "Integer"
        if op in ("sum", "min", "max", "first_value", "last_value", "lag", "lead"): return t
        return "Number"
    if target:
        out_c[target] = ("M", rtype(ca[measure][1]) if measure else "Integer")
    else:
        out_c = {n: v for n, v in ca.items() if v[0] == "I"}
        for m in meas:
            out_c[m] = ("M", rtype(ca[m][1]))
    parts = {}
    for r in ra:
        parts.setdefault(tuple(r[p] for p in partition), []).append(r)
    out_rows = []
    for key, rows in parts.items():
        for oid, direction in reversed(orderby):
            rows = sorted(rows, key=lambda r: r[oid], reverse=(direction == "desc"))
        order_vals = [r[orderby[0][0]] for r in rows] if orderby else [0] * len(rows)
        if window is not None and window[0] == "range" and orderby and orderby[0][1] == "desc":
            order_vals = [-v for v in order_vals]
        for i, r in enumerate(rows):
            res = {}
            for m in (meas if op != "rank" else [None]):
                if op == "rank":
                    v = i + 1
                elif op in ("lag", "lead"):
                    off = params[0] if params else 1
                    j = i - off if op == "lag" else i + off
                    v = rows[j][m] if 0 <= j < len(rows) else None
                elif op == "ratio_to_report":
                    tot = aggregate("sum", [x[m] for x in rows])
                    if r[m] is None or tot is None:
                        v = None
                    elif tot == 0:
                        raise Unsupported("ratio_to_report over a zero total")
                    else:
                        v = Fraction(r[m]) / Fraction(tot)
                else:
                    if window is None and not orderby:
                        raise Unsupported("framed analytic function without ordering and without explicit window")
                    idx = _frame_rows(rows, i, window if window else ("rows", "up", "cur"), order_vals)
                    vals = [rows[j][m] for j in idx]
                    if op == "first_value":
                        v = vals[0] if vals else None
                    elif op == "last_value":
                        v = vals[-1] if vals else None
                    else:
                        v = aggregate(op, vals)
                res[m] = v
            if target:
                o = dict(r)
                o[target] = res[meas[0] if op != "rank" else None]
            else:
                o = {n: r[n] for n in ca if ca[n][0] == "I"}
                for m in meas:
                    o[m] = res[m]
            out_rows.append(o)
    return out_c, out_rows


# ---- dataset-level if-then-else ------------------------------------------------------
def eval_dsif(ir, env):
    """("dsif", C, A, B): C a mono-measure Boolean dataset, A and B datasets with the same identifiers and measures.
    For every datapoint of C: condition true -> the datapoint of A with the same identifiers, otherwise (false or null)
    the datapoint of B; no partner in the selected branch -> no result datapoint."""
    (cc, cr), (ca, ra), (cb, rb) = eval_ds(ir[1], env), eval_ds(ir[2], env), eval_ds(ir[3], env)
    ids = ids_of(cc)
    if sorted(ids) != sorted(ids_of(ca)) or sorted(ids) != sorted(ids_of(cb)) or sorted(measures_of(ca)) != sorted(measures_of(cb)):
        raise Unsupported("dsif operand structures")
    cm = measures_of(cc)
    if len(cm) != 1 or cc[cm[0]][1] != "Boolean":
        raise Unsupported("dsif condition")
    out_c = {i: cc[i] for i in ids}
    for m in measures_of(ca):
        out_c[m] = ("M", _res_type("+", ca[m][1], cb[m][1]) if ca[m][1] != cb[m][1] else ca[m][1])
    ia = {tuple(r[i] for i in ids): r for r in ra}
    ib = {tuple(r[i] for i in ids): r for r in rb}
    rows = []
    for r in cr:
        k = tuple(r[i] for i in ids)
        src = ia.get(k) if r[cm[0]] is True else ib.get(k)
        if src is not None:
            rows.append(dict({i: r[i] for i in ids}, **{m: src[m] for m in measures_of(ca)}))
    return out_c, rows
