"""Differential evaluation of one generated case: engine run() vs refvtl (shared by C01-C06, C29, C32)."""
import math
from fractions import Fraction
from verif import refvtl, gen, cmp, eng

LOOSE_OPS = {"/", "ln", "exp", "sqrt", "power", "log", "avg", "stddev_pop", "stddev_samp", "var_pop", "var_samp", "median"}


def ops_of(ir, acc=None):
    acc = set() if acc is None else acc
    if isinstance(ir, tuple):
        if ir and ir[0] in ("bin", "un", "fn", "dsbin", "dsun", "dsfn", "dsscalar"):
            acc.add(str(ir[1]))
        elif ir and ir[0] in ("if", "case", "nvl", "isnull", "in", "between"):
            acc.add(ir[0])
        elif ir and ir[0] == "clause":
            acc.add("[" + ir[1] + "]")
        for x in ir[1:]:
            ops_of(x, acc)
    elif isinstance(ir, list):
        for x in ir:
            ops_of(x, acc)
    return acc


def value_equal(ref, got, loose):
    got = cmp.canon_value(got)
    if ref is None or got is None:
        return ref is None and got is None
    if isinstance(ref, bool) or isinstance(got, bool):
        return isinstance(ref, bool) and isinstance(got, bool) and ref == got
    if isinstance(ref, (int, Fraction)):
        if not isinstance(got, (int, float)):
            return False
        r = float(ref)
        if isinstance(got, float) and (math.isnan(got) or math.isinf(got)):
            return False
        tol = 1e-7 if loose else 1e-9
        return abs(r - got) <= tol * max(1.0, abs(r), abs(got))
    return type(ref) == type(got) and ref == got


def compare(ref, res, loose):
    """ref = (comps, rows) from refvtl; res = engine Dataset.  -> None or (kind, text)."""
    rc, rr = ref
    cols = list(res.data.columns)
    if sorted(cols) != sorted(rc):
        return ("columns", "engine columns %r, reference %r" % (sorted(cols), sorted(rc)))
    ids = [n for n, (role, t) in rc.items() if role == "I"]
    eng_rows = {}
    for rec in res.data.itertuples(index=False, name=None):
        row = dict(zip(cols, rec))
        k = tuple(cmp.canon_value(row[i]) for i in ids)
        if k in eng_rows:
            return ("duplicate_keys", "engine returned key %r twice" % (k,))
        eng_rows[k] = row
    ref_rows = {}
    for r in rr:
        k = tuple(cmp.canon_value(to_plain(r[i])) for i in ids)
        if k in ref_rows:
            return ("reference_duplicate_keys", "reference produced key %r twice" % (k,))
        ref_rows[k] = r
    if set(eng_rows) != set(ref_rows):
        return ("keys", "only engine: %r; only reference: %r" % (sorted(set(eng_rows) - set(ref_rows), key=repr)[:3], sorted(set(ref_rows) - set(eng_rows), key=repr)[:3]))
    for k, r in ref_rows.items():
        e = eng_rows[k]
        for n in rc:
            if n in ids:
                continue
            if not value_equal(r[n], e[n], loose):
                return ("value", "key %r component %s: engine %r, reference %r" % (k, n, cmp.canon_value(e[n]), to_plain(r[n])))
    return None


def to_plain(v):
    return float(v) if isinstance(v, Fraction) else v


def run_case(ci, ir, script=None, result="R", extra_kwargs=None, evaluator=None):
    """-> (verdict_key or None, text, facts).  Keys:
    value:/keys:/columns:  mismatch;  error_expected: reference says VTL error but engine returned;  raw:<Type> raw exception;
    engine_rejects:<code> engine raised a VTL error where the reference computed a value."""
    from vtlengine import run
    from vtlengine.Exceptions import VTLEngineException
    script = script or "%s <- %s;" % (result, gen.render_ds(ir))
    facts = {"script": script, "ops": sorted(ops_of(ir))}
    opsig = "+".join(sorted(ops_of(ir))[:4])
    try:
        refvtl.SEEN["err"] = 0
        ref = (evaluator or refvtl.eval_ds)(ir, gen.ref_env(ci))
        ref_kind = "ok"
        if any(v is refvtl.ERR for r in ref[1] for v in r.values()):
            ref, ref_kind = None, "vtl_error"
        elif refvtl.SEEN["err"]:
            ref_kind = "ok_or_error"   # an erroring datapoint was dropped before reaching the result
    except refvtl.VTLError as e:
        ref, ref_kind = None, "vtl_error"
    except refvtl.Unsupported as e:
        return ("unsupported", str(e), facts)
    S, dps = gen.engine_inputs(ci)
    kw = dict(script=script, data_structures=S, datapoints=dps)
    kw.update(extra_kwargs or {})
    try:
        out = run(**kw)
        eng_kind, err = "ok", None
    except VTLEngineException as e:
        eng_kind, err = "vtl", e
    except Exception as e:  # noqa
        eng_kind, err = "raw", e
    facts["ref"] = ref_kind
    facts["engine"] = eng_kind
    if eng_kind == "raw" and type(err).__name__ == "BinderException" and rename_over_nonleaf(ir):
        return ("raw:BinderException:rename_nested", "raw %s: %s" % (type(err).__name__, str(err)[:300]), facts)
    if eng_kind == "raw":
        return ("raw:%s:%s:%s" % (type(err).__name__, eng.innermost_frame(err).split(":")[-1], opsig), "raw %s: %s" % (type(err).__name__, str(err)[:300]), facts)
    if ref_kind == "vtl_error":
        if eng_kind == "vtl":
            return (None, None, facts)
        return ("error_expected:%s" % opsig, "reference: VTL runtime error (division by zero) but engine returned a value", facts)
    if eng_kind == "vtl" and ref_kind == "ok_or_error":
        return (None, None, facts)
    if eng_kind == "vtl":
        code = err.args[1] if len(err.args) > 1 else type(err).__name__
        return ("engine_rejects:%s:%s" % (code, opsig), "engine raised %s %s: %s" % (type(err).__name__, code, str(err)[:200]), facts)
    if result not in out:
        return ("missing_result", "engine returned %r" % sorted(out), facts)
    loose = bool(ops_of(ir) & LOOSE_OPS)
    d = compare(ref, out[result], loose)
    if d:
        return ("%s:%s" % (d[0], opsig), d[1], facts)
    facts["rows"] = len(ref[1])
    return (None, None, facts)


def sub_irs(ir):
    """Direct dataset-IR children (for the structural reducer)."""
    if not isinstance(ir, tuple):
        return []
    if ir[0] in ("dsbin",):
        return [ir[2], ir[3]]
    if ir[0] in ("dsscalar", "dsun", "dsfn", "clause"):
        return [ir[2]]
    return []


def reduce_case(ci, ir, key_class, budget=40, evaluator=None):
    """Greedy structural reducer: replace the IR by a child, drop rows, while the failure class persists."""
    calls = 0
    def fails(ci2, ir2):
        nonlocal calls
        calls += 1
        try:
            k, _, _ = run_case(ci2, ir2, evaluator=evaluator)
        except Exception:
            return False
        return k is not None and k.split(":")[0] == key_class
    changed = True
    while changed and calls < budget:
        changed = False
        for ch in sub_irs(ir):
            if calls >= budget:
                break
            if fails(ci, ch):
                ir, changed = ch, True
                break
        if changed:
            continue
        for name in sorted(ci["rows"]):
            rows = ci["rows"][name]
            for i in range(len(rows)):
                if calls >= budget:
                    break
                ci2 = dict(ci, rows=dict(ci["rows"], **{name: rows[:i] + rows[i + 1:]}))
                if fails(ci2, ir):
                    ci, changed = ci2, True
                    break
            if changed:
                break
    return ci, ir


def _is_rename(ir):
    k = ir[0]
    return (k in ("dsbin", "dsscalar") and ir[1] in ("=", "<>", "<", "<=", ">", ">=")) or (k == "dsfn" and (ir[1] == "isnull" or (ir[1] in ("ceil", "floor", "trunc", "round") and not ir[3])))


def _ds_ops(ir):
    if not isinstance(ir, tuple) or ir[0] in ("ds",):
        return []
    own = [ir] if ir[0] in ("dsbin", "dsscalar", "dsun", "dsfn") else []
    return own + [x for c in sub_irs(ir) for x in _ds_ops(c)]


def rename_nested(ir):
    """Shape of known finding C01-rename-nested: a measure-renaming dataset-level operator (comparison, isnull,
    ceil/floor/trunc without precision) combined with any other dataset-level operator in the same expression."""
    ops = _ds_ops(ir)
    return len(ops) > 1 and any(_is_rename(o) for o in ops)


rename_over_nonleaf = rename_nested
