"""Thin helpers around the engine's public API (no engine internals)."""
import math, os

ROLES = {"I": "Identifier", "M": "Measure", "A": "Attribute", "V": "ViralAttribute"}


def comp(name, typ, role="M", nullable=None):
    role = ROLES.get(role, role)
    if nullable is None:
        nullable = role != "Identifier"
    return {"name": name, "type": typ, "role": role, "nullable": nullable}


def structure(name, comps):
    return {"name": name, "DataStructure": [dict(c) for c in comps]}


def structures(*dss, scalars=()):
    d = {"datasets": list(dss)}
    if scalars:
        d["scalars"] = [{"name": n, "type": t} for n, t in scalars]
    return d


def frame(comps, rows):
    """rows: list of dicts keyed by component name -> pandas DataFrame (object columns)."""
    import pandas as pd
    cols = [c["name"] for c in comps]
    return pd.DataFrame({c: pd.Series([r.get(c) for r in rows], dtype="object") for c in cols})


def is_null(v):
    if v is None:
        return True
    try:
        import pandas as pd
        if v is pd.NA or v is pd.NaT:
            return True
    except Exception:
        pass
    return isinstance(v, float) and math.isnan(v)


def norm(v):
    """Plain-Python view of an engine output cell."""
    if is_null(v):
        return None
    if hasattr(v, "item") and not isinstance(v, (str, bytes)):
        try:
            v = v.item()
        except Exception:
            pass
    if is_null(v):
        return None
    return v


def dataset_rows(ds):
    """engine Dataset -> (component names in order, list of dict rows with plain values)."""
    df = ds.data
    cols = list(df.columns)
    rows = []
    for rec in df.itertuples(index=False, name=None):
        rows.append({c: norm(v) for c, v in zip(cols, rec)})
    return cols, rows


def ids_of(ds):
    return [n for n, c in ds.components.items() if c.role.name == "IDENTIFIER" or str(c.role).endswith("IDENTIFIER")]


def vtl_exc():
    from vtlengine.Exceptions import VTLEngineException
    return VTLEngineException


def classify_exc(e):
    """'vtl:<Class>:<code>' for VTL errors, 'raw:<Class>' otherwise."""
    from vtlengine.Exceptions import VTLEngineException
    if isinstance(e, VTLEngineException):
        code = e.args[1] if len(e.args) > 1 else None
        return "vtl:%s:%s" % (type(e).__name__, code)
    return "raw:%s.%s" % (type(e).__module__, type(e).__name__)


def innermost_frame(e, pkg="vtlengine"):
    import traceback
    fr = None
    for f in traceback.extract_tb(e.__traceback__):
        if "/" + pkg + "/" in f.filename:
            fr = "%s:%s" % (f.filename.split("/" + pkg + "/")[-1], f.name)
    return fr or "?"
