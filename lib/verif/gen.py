"""Hypothesis generators: structures, data, and scripts as IR + rendered VTL text (DESIGN.md §2.3).

Everything is built by construction (typed), no filtering.  The engine only sees text; refvtl
evaluates the IR.
"""
from fractions import Fraction
from hypothesis import strategies as st
from verif import eng

ID_POOL = [("Id_1", "Integer"), ("Id_2", "String"), ("Id_3", "Integer")]
ID_VALUES = {"Id_1": [1, 2, 3], "Id_2": ["a", "b", "ü"], "Id_3": [10, 20]}
# Number pool: no value is a rounding tie at 0, 1 or 2 decimals (round() ties are excluded, see DESIGN §4)
NUMS = ["0", "1", "-1", "2.4", "-3.7", "0.1", "100", "1234.5678", "0.0001", "7.77", "-0.3", "12.34"]
INTS = ["0", "1", "-1", "7", "-12", "1000", "2", "3"]
STRS = ["", "a", "abc", " pad ", "Hello World", "ünï", "x,y", "a'b", "AbC", "  ", "zz"]
BOOLS = ["true", "false"]
POOL = {"Number": NUMS, "Integer": INTS, "String": STRS, "Boolean": BOOLS}


def parse_cell(typ, s):
    if s is None:
        return None
    if typ == "Integer":
        return int(s)
    if typ == "Number":
        return Fraction(s)
    if typ == "Boolean":
        return s == "true"
    return s


# ---------------------------------------------------------------- rendering
def lit_text(typ, v):
    if v is None:
        return "null"
    if typ == "String":
        return '"%s"' % v
    if typ == "Boolean":
        return "true" if v else "false"
    if typ == "Integer":
        return str(v) if v >= 0 else "-%d" % -v
    from decimal import Decimal
    if isinstance(v, Fraction):
        d = Decimal(v.numerator) / Decimal(v.denominator)
        s = format(d, "f")
        neg = s.startswith("-")
        s = s.lstrip("-")
    else:
        s = str(v); neg = s.startswith("-"); s = s.lstrip("-")
    if "." not in s:
        s += ".0"
    return ("-" if neg else "") + s


def render(e):
    k = e[0]
    if k == "lit":
        return lit_text(e[1], e[2])
    if k == "comp":
        return e[1]
    if k == "un":
        return "%s (%s)" % (e[1], render(e[2])) if e[1] == "not" else "%s(%s)" % (e[1], render(e[2]))
    if k == "bin":
        if e[1] in ("mod", "power", "log"):
            return "%s(%s, %s)" % (e[1], render(e[2]), render(e[3]))
        return "(%s %s %s)" % (render(e[2]), e[1], render(e[3]))
    if k == "fn":
        return "%s(%s)" % (e[1], ", ".join(render(x) for x in e[2]))
    if k == "isnull":
        return "isnull(%s)" % render(e[1])
    if k == "nvl":
        return "nvl(%s, %s)" % (render(e[1]), render(e[2]))
    if k == "if":
        return "(if %s then %s else %s)" % (render(e[1]), render(e[2]), render(e[3]))
    if k == "case":
        return "(case %s else %s)" % (" ".join("when %s then %s" % (render(c), render(v)) for c, v in e[1]), render(e[2]))
    if k == "in":
        return "(%s %s {%s})" % (render(e[1]), "not_in" if e[3] else "in", ", ".join(lit_text(t, v) for t, v in e[2]))
    if k == "between":
        return "between(%s, %s, %s)" % (render(e[1]), render(e[2]), render(e[3]))
    raise ValueError(k)


def render_having(h):
    if h is None:
        return ""
    aggop, comp, cmpop, lit = h
    return " having %s(%s) %s %s" % (aggop, comp or "", cmpop, render(lit))


def render_group(mode, ids):
    return "" if mode == "none" else " group %s %s" % (mode, ", ".join(ids))


def render_ds(ir):
    k = ir[0]
    if k == "ds":
        return ir[1]
    if k == "agg":
        return "%s(%s%s%s)" % (ir[1], render_ds(ir[2]), render_group(ir[3], ir[4]), render_having(ir[5]))
    if k == "aggrclause":
        items = ", ".join("%s%s := %s(%s)" % ({"M": "", "A": "attribute "}[role], name, op, comp or "") for name, role, op, comp in ir[2])
        return "%s [aggr %s%s%s]" % (render_ds(ir[1]), items, render_group(ir[3], ir[4]), render_having(ir[5]))
    if k == "setop":
        return "%s(%s)" % (ir[1], ", ".join(render_ds(o) for o in ir[2]))
    if k == "dsif":
        # the condition is written with membership (DS#Me_1): a bare boolean dataset as condition is known finding C01-dsif-bare-condition
        cond = "%s#Me_1" % ir[1][1] if ir[1][0] == "ds" and not (len(ir) > 4 and ir[4] == "bare") else render_ds(ir[1])
        return "if %s then %s else %s" % (cond, render_ds(ir[2]), render_ds(ir[3]))
    if k == "analytic":
        _, op, a, measure, partition, orderby, window, params, target = ir
        def bound(b):
            return {"up": "unbounded preceding", "uf": "unbounded following", "cur": "current data point"}.get(b) or "%d %s" % (b[1], "preceding" if b[0] == "p" else "following")
        over = "over (%s%s%s)" % ("partition by %s" % ", ".join(partition) if partition else "",
                                  " order by %s" % ", ".join("%s %s" % (i, d) for i, d in orderby) if orderby else "",
                                  " %s between %s and %s" % ("data points" if window[0] == "rows" else "range", bound(window[1]), bound(window[2])) if window else "")
        arg = measure if target else render_ds(a)
        if op == "rank":
            call = "rank(%s)" % over
        elif op in ("lag", "lead"):
            call = "%s(%s, %d %s)" % (op, arg, params[0], over)
        else:
            call = "%s(%s %s)" % (op, arg, over)
        return "%s [calc %s := %s]" % (render_ds(a), target, call) if target else call
    if k == "join":
        ops = ", ".join("%s as %s" % (render_ds(a), alias) for a, alias in ir[2])
        using = " using %s" % ", ".join(ir[3]) if ir[3] else ""
        body = ""
        for ckind, p in ir[4]:
            if ckind == "aggr":
                items, mode, gids = p
                body += " aggr " + ", ".join("%s := %s(%s)" % (name, op, comp) for name, role, op, comp in items) + render_group(mode, gids)
            else:
                body += " " + render_ds(("clause", ckind, ("ds", ""), p)).strip()[1:-1]
        return "%s(%s%s%s)" % (ir[1], ops, using, body)
    if k == "dsbin":
        if ir[1] in ("mod", "power", "log"):
            return "%s(%s, %s)" % (ir[1], render_ds(ir[2]), render_ds(ir[3]))
        return "(%s %s %s)" % (render_ds(ir[2]), ir[1], render_ds(ir[3]))
    if k == "dsscalar":
        a, s = render_ds(ir[2]), render(ir[3])
        if ir[1] in ("mod", "power", "log"):
            return "%s(%s, %s)" % ((ir[1], s, a) if ir[4] else (ir[1], a, s))
        return "(%s %s %s)" % ((s, ir[1], a) if ir[4] else (a, ir[1], s))
    if k == "dsun":
        return "%s (%s)" % (ir[1], render_ds(ir[2])) if ir[1] == "not" else "%s(%s)" % (ir[1], render_ds(ir[2]))
    if k == "dsfn":
        return "%s(%s)" % (ir[1], ", ".join([render_ds(ir[2])] + [render(p) for p in ir[3]]))
    if k == "clause":
        kind, a, p = ir[1], render_ds(ir[2]), ir[3]
        if kind == "filter":
            body = "filter %s" % render(p)
        elif kind == "calc":
            body = "calc " + ", ".join("%s%s := %s" % ({"M": "", "A": "attribute ", "I": "identifier "}[role], name, render(e)) for name, role, typ, e in p)
        elif kind == "keep":
            body = "keep " + ", ".join(p)
        elif kind == "drop":
            body = "drop " + ", ".join(p)
        elif kind == "rename":
            body = "rename " + ", ".join("%s to %s" % (a_, b_) for a_, b_ in p)
        elif kind == "sub":
            body = "sub " + ", ".join("%s = %s" % (i, lit_text(t, v)) for i, (t, v) in p)
        return "%s [%s]" % (a, body)
    raise ValueError(k)


# ---------------------------------------------------------------- typed component expressions
def literal(typ):
    if typ == "Number":
        return st.sampled_from(NUMS + ["2.5", "0.5", "3.14159"]).map(lambda s: ("lit", "Number", Fraction(s)))
    if typ == "Integer":
        return st.sampled_from(INTS + ["10", "5"]).map(lambda s: ("lit", "Integer", int(s)))
    if typ == "String":
        return st.sampled_from(STRS + ["b", "l", "o W"]).map(lambda s: ("lit", "String", s))
    return st.sampled_from([True, False]).map(lambda b: ("lit", "Boolean", b))


def comps_of(comps, types):
    return [n for n, (r, t) in comps.items() if t in types]


def expr(typ, comps, depth):
    """Strategy for an IR expression of VTL type `typ` over the components `comps` (name -> (role, type))."""
    leaves = [literal(typ)]
    names = comps_of(comps, (typ,)) if typ != "Number" else comps_of(comps, ("Number",))
    if names:
        leaves.append(st.sampled_from(names).map(lambda n: ("comp", n)))
        leaves.append(st.sampled_from(names).map(lambda n: ("comp", n)))
    if depth <= 0:
        return st.one_of(leaves)
    sub = lambda t: expr(t, comps, depth - 1)
    num_any = st.one_of(sub("Number"), sub("Integer"))
    opts = list(leaves)
    if typ == "Integer":
        opts += [st.tuples(st.sampled_from(["+", "-", "*"]), sub("Integer"), sub("Integer")).map(lambda t: ("bin",) + t),
                 st.tuples(st.sampled_from(["abs"]), sub("Integer")).map(lambda t: ("fn", t[0], [t[1]])),
                 st.tuples(st.sampled_from(["ceil", "floor", "trunc"]), sub("Number")).map(lambda t: ("fn", t[0], [t[1]])),
                 st.one_of(leaves_only("Number", comps)).map(lambda e: ("fn", "round", [e])),
                 sub("String").map(lambda e: ("fn", "length", [e])),
                 st.tuples(sub("String"), st.sampled_from(["a", "b", "l", " "])).map(lambda t: ("fn", "instr", [t[0], ("lit", "String", t[1])])),
                 st.tuples(sub("Integer"), st.sampled_from([2, 3, 7])).map(lambda t: ("bin", "mod", ("fn", "abs", [t[0]]), ("lit", "Integer", t[1]))),
                 st.tuples(sub("Integer"), sub("Integer")).map(lambda t: ("un", "-", t[0])),
                 ]
    elif typ == "Number":
        opts += [st.tuples(st.sampled_from(["+", "-", "*"]), num_any, sub("Number")).map(lambda t: ("bin",) + t),
                 st.tuples(st.sampled_from(["+", "-", "*"]), sub("Number"), num_any).map(lambda t: ("bin",) + t),
                 st.tuples(num_any, st.sampled_from(["2", "4.0", "-0.5", "3", "10.0", "0"]).map(lambda s: ("lit", "Number" if "." in s else "Integer", Fraction(s) if "." in s else int(s)))).map(lambda t: ("bin", "/", t[0], t[1])),
                 st.tuples(num_any, num_any).map(lambda t: ("bin", "/", t[0], t[1])),
                 st.tuples(st.sampled_from(["abs"]), sub("Number")).map(lambda t: ("fn", t[0], [t[1]])),
                 st.tuples(st.one_of(leaves_only("Number", comps)), st.sampled_from([0, 1, 2])).map(lambda t: ("fn", "round", [t[0], ("lit", "Integer", t[1])])),
                 st.tuples(sub("Number"), st.sampled_from([0, 1, 2, 3])).map(lambda t: ("fn", "trunc", [t[0], ("lit", "Integer", t[1])])),
                 sub("Number").map(lambda e: ("fn", "sqrt", [("fn", "abs", [e])])),
                 sub("Number").map(lambda e: ("fn", "ln", [("bin", "+", ("fn", "abs", [e]), ("lit", "Number", Fraction(1)))])),
                 st.tuples(num_any, st.sampled_from([2, 3])).map(lambda t: ("bin", "power", t[0], ("lit", "Integer", t[1]))),
                 st.one_of(leaves_only("Number", comps)).map(lambda e: ("fn", "exp", [("bin", "/", e, ("lit", "Number", Fraction(1000)))])),
                 sub("Number").map(lambda e: ("un", "-", e)),
                 ]
    elif typ == "String":
        opts += [st.tuples(sub("String"), sub("String")).map(lambda t: ("bin", "||", t[0], t[1])),
                 st.tuples(st.sampled_from(["trim", "ltrim", "rtrim", "upper", "lower"]), sub("String")).map(lambda t: ("fn", t[0], [t[1]])),
                 st.tuples(sub("String"), st.integers(1, 4)).map(lambda t: ("fn", "substr", [t[0], ("lit", "Integer", t[1])])),
                 st.tuples(sub("String"), st.integers(1, 4), st.integers(0, 5)).map(lambda t: ("fn", "substr", [t[0], ("lit", "Integer", t[1]), ("lit", "Integer", t[2])])),
                 st.tuples(sub("String"), st.sampled_from(["a", "b", " ", "l", "ü"]), st.sampled_from(["", "X", "aa"])).map(lambda t: ("fn", "replace", [t[0], ("lit", "String", t[1]), ("lit", "String", t[2])])),
                 ]
    else:  # Boolean
        cmp_ops = st.sampled_from(["=", "<>", "<", "<=", ">", ">="])
        opts += [st.tuples(cmp_ops, num_any, num_any).map(lambda t: ("bin",) + t),
                 st.tuples(cmp_ops, sub("String"), sub("String")).map(lambda t: ("bin",) + t),
                 st.tuples(st.sampled_from(["=", "<>"]), sub("Boolean"), sub("Boolean")).map(lambda t: ("bin",) + t),
                 st.tuples(st.sampled_from(["and", "or", "xor"]), sub("Boolean"), sub("Boolean")).map(lambda t: ("bin",) + t),
                 sub("Boolean").map(lambda e: ("un", "not", e)),
                 st.one_of(sub("Number"), sub("String"), sub("Integer"), sub("Boolean")).map(lambda e: ("isnull", e)),
                 st.tuples(sub("Integer"), st.lists(st.sampled_from([0, 1, 2, 7, -12]), min_size=1, max_size=3, unique=True), st.booleans()).map(lambda t: ("in", t[0], [("Integer", v) for v in t[1]], t[2])),
                 st.tuples(sub("String"), st.lists(st.sampled_from(["a", "abc", "", "zz"]), min_size=1, max_size=3, unique=True), st.booleans()).map(lambda t: ("in", t[0], [("String", v) for v in t[1]], t[2])),
                 st.tuples(num_any, literal("Number"), literal("Number")).map(lambda t: ("between", t[0], t[1], t[2])),
                 ]
    # conditionals for every type.  VTL requires then/else to be scalars when the condition is a scalar, and nvl's second
    # operand to be a scalar when the first is: conditions / first operands are made to reference a component.
    # case: only mutually exclusive conditions (c, not c) - which branch wins when several conditions are true is not
    # settled by the sources available offline (the engine implements last-match-wins), see DESIGN.md §4.
    anyc = sorted(comps)[0]
    def with_comp(c):
        return c if has_comp(c) else ("bin", "or", c, ("bin", "and", ("isnull", ("comp", anyc)), ("lit", "Boolean", False)))
    def nvl_first(a, t=typ):
        names_t = comps_of(comps, (t,))
        return a if has_comp(a) or not names_t else ("comp", names_t[0])
    opts += [st.tuples(sub("Boolean"), sub(typ), sub(typ)).map(lambda t: ("if", with_comp(t[0]), t[1], t[2])),
             st.tuples(sub(typ), sub(typ)).map(lambda t: ("nvl", nvl_first(t[0]), t[1]) if has_comp(nvl_first(t[0])) or not has_comp(t[1]) else t[1]),
             st.tuples(sub("Boolean"), sub(typ), sub(typ)).map(lambda t: ("case", [(with_comp(t[0]), t[1])], t[2])),
             st.tuples(sub("Boolean"), sub(typ), sub(typ), sub(typ)).map(lambda t: ("case", [(with_comp(t[0]), t[1]), (("un", "not", with_comp(t[0])), t[2])], t[3]))]
    return st.one_of(opts).map(lambda e: _cap_products(e, typ))


def _mult_scale(e):
    """Decimal scale DuckDB needs for the expression when Numbers are DECIMAL(p, 10): a product adds the scales of its factors."""
    if not isinstance(e, tuple):
        return 0
    if e[0] == "lit":
        return 10 if e[1] == "Number" else 0
    if e[0] == "comp":
        return 10
    if e[0] == "bin" and e[1] == "*":
        return _mult_scale(e[2]) + _mult_scale(e[3])
    if e[0] == "bin" and e[1] in ("/", "power", "mod"):
        return 10
    kids = [x for x in e[1:] if isinstance(x, (tuple, list))]
    flat = []
    for k in kids:
        flat += list(k) if isinstance(k, list) else [k]
    return max([_mult_scale(k) for k in flat if isinstance(k, tuple)] + [0])


def _ds_mult_scale(ir):
    if not isinstance(ir, tuple):
        return 0
    if ir[0] == "ds":
        return 10
    if ir[0] == "dsbin":
        a, b = _ds_mult_scale(ir[2]), _ds_mult_scale(ir[3])
        return a + b if ir[1] == "*" else (10 if ir[1] == "/" else max(a, b))
    if ir[0] == "dsscalar":
        a = _ds_mult_scale(ir[2])
        lit = 10 if (isinstance(ir[3], tuple) and ir[3][1] == "Number") else 0
        return a + lit if ir[1] == "*" else (10 if ir[1] == "/" else a)
    return max([_ds_mult_scale(x) for x in ir[1:] if isinstance(x, tuple)] + [0])


def _cap_products(e, typ):
    """Known finding C01-number-product-scale: a product of four or more Number factors needs a DECIMAL scale above 38 and is rejected by
    the engine (RunTimeError 2-1-1-1 'Needed scale 40 ...'); such shapes are not generated (a dedicated probe in C01 reports the finding)."""
    if typ in ("Number", "Integer") and _mult_scale(e) > 30:
        return ("lit", typ, Fraction(2) if typ == "Number" else 2)
    return e


def has_comp(e):
    if isinstance(e, tuple):
        if e and e[0] == "comp":
            return True
        # node tuples carry a string tag first; (condition, value) pairs of a case do not: inspect every element of those
        return any(has_comp(x) for x in (e[1:] if e and isinstance(e[0], str) else e))
    if isinstance(e, list):
        return any(has_comp(x) for x in e)
    return False


def leaves_only(typ, comps):
    out = [literal(typ)]
    names = comps_of(comps, (typ,))
    if names:
        out.append(st.sampled_from(names).map(lambda n: ("comp", n)))
    return out


# ---------------------------------------------------------------- structures and data
FAMILIES = {"num": ["Number", "Integer"], "str": ["String"], "bool": ["Boolean"]}


@st.composite
def case_inputs(draw, family=None, n_datasets=None, max_rows=8, mixed=False):
    """-> dict(structs={name: comps}, rows={name: [row dict of strings]}, family)"""
    family = family or draw(st.sampled_from(["num", "num", "str", "bool"]))
    k = n_datasets or draw(st.integers(1, 3))
    n_ids = draw(st.integers(1, 3))
    full_ids = ID_POOL[:n_ids]
    overlap = draw(st.sampled_from(["equal", "equal", "nested"]))
    n_meas = draw(st.integers(1, 2))
    structs, rows = {}, {}
    for d in range(1, k + 1):
        ids = full_ids
        if overlap == "nested" and d > 1 and n_ids > 1:
            cut = draw(st.integers(1, n_ids))
            ids = full_ids[:cut]
        comps = {}
        for n, t in ids:
            comps[n] = ("I", t)
        morder = list(range(1, n_meas + 1))
        if d > 1 and n_meas > 1 and draw(st.booleans()):
            morder.reverse()  # same measures declared in a different order: operators must pair them by name
        for m in morder:
            comps["Me_%d" % m] = ("M", draw(st.sampled_from(FAMILIES[family])))
        if mixed:
            extra_types = draw(st.lists(st.sampled_from(["Number", "Integer", "String", "Boolean"]), min_size=0, max_size=3))
            for j, t in enumerate(extra_types):
                comps["Mx_%d" % (j + 1)] = ("M", t)
            if draw(st.booleans()):
                comps["At_1"] = ("A", "String")
        structs["DS_%d" % d] = comps
        keys = draw(st.lists(st.tuples(*[st.sampled_from(ID_VALUES[n]) for n, _ in ids]), min_size=0, max_size=max_rows, unique=True))
        rr = []
        for key in keys:
            r = {n: str(v) for (n, _), v in zip(ids, key)}
            for n, (role, t) in comps.items():
                if role != "I":
                    r[n] = draw(st.one_of(st.none(), st.sampled_from(POOL[t]), st.sampled_from(POOL[t])))
            rr.append(r)
        rows["DS_%d" % d] = rr
    return dict(structs=structs, rows=rows, family=family)


def engine_inputs(ci, nullable=True):
    """-> (data_structures dict, datapoints dict of string DataFrames)"""
    dss, dps = [], {}
    for name, comps in ci["structs"].items():
        cl = [eng.comp(n, t, role) for n, (role, t) in comps.items()]
        dss.append(eng.structure(name, cl))
        dps[name] = eng.frame(cl, ci["rows"][name])
    return eng.structures(*dss), dps


def ref_env(ci):
    env = {}
    for name, comps in ci["structs"].items():
        env[name] = (dict(comps), [{n: parse_cell(comps[n][1], v) for n, v in r.items()} for r in ci["rows"][name]])
    return env


# ---------------------------------------------------------------- dataset-level expressions
def ds_struct(ir, structs):
    """Static structure of a dataset IR (mirror of refvtl.eval_ds, without data)."""
    from verif import refvtl
    env = {n: (c, []) for n, c in structs.items()}
    return refvtl.eval_ds(ir, env)[0]


@st.composite
def ds_expr(draw, ci, depth):
    """Dataset-level expression over the inputs of `ci` (family typed).  Returns IR."""
    from verif import refvtl
    structs, fam = ci["structs"], ci["family"]
    names = sorted(structs)
    def leaf():
        return ("ds", draw(st.sampled_from(names)))
    def build(d):
        if d <= 0:
            return leaf()
        choice = draw(st.sampled_from(["bin", "bin", "scalar", "scalar", "un", "fn", "leaf", "cmp", "cmp_scalar"]))
        if choice == "leaf":
            return leaf()
        a = build(d - 1)
        ca = ds_struct(a, structs)
        ma = refvtl.measures_of(ca)
        mtypes = {ca[m][1] for m in ma}
        isnum = mtypes <= {"Integer", "Number"}
        isstr = mtypes == {"String"}
        isbool = mtypes == {"Boolean"}
        # Known finding C01-rename-over-nonleaf: an operator that renames the measure (comparison, isnull, ceil/floor/trunc)
        # applied to a non-leaf dataset expression raises a raw BinderException; such shapes are generated only
        # over input datasets (a dedicated probe reports the finding).
        if choice in ("cmp", "cmp_scalar") and a[0] != "ds":
            choice = "bin" if choice == "cmp" else "scalar"
        if choice in ("bin", "cmp"):
            b = build(d - 1)
            if choice == "cmp" and b[0] != "ds":
                choice = "bin"
            cb = ds_struct(b, structs)
            ia, ib = set(refvtl.ids_of(ca)), set(refvtl.ids_of(cb))
            same = sorted(ma) == sorted(refvtl.measures_of(cb)) and (ia <= ib or ib <= ia) and \
                all((ca[m][1] in ("Integer", "Number")) == (cb[m][1] in ("Integer", "Number")) and (ca[m][1] == cb[m][1] or isnum) for m in ma)
            if not same:
                return a
            if choice == "cmp":
                if len(ma) != 1:
                    return a
                ops = ["=", "<>", "<", "<=", ">", ">="] if not isbool else ["=", "<>"]
                return ("dsbin", draw(st.sampled_from(ops)), a, b)
            if isnum:
                return ("dsbin", draw(st.sampled_from(["+", "-", "*", "/"])), a, b)
            if isstr:
                return ("dsbin", "||", a, b)
            if isbool:
                return ("dsbin", draw(st.sampled_from(["and", "or", "xor"])), a, b)
            return a
        if choice in ("scalar", "cmp_scalar"):
            left = draw(st.booleans())
            if isnum:
                s = draw(st.one_of(literal("Number"), literal("Integer")))
                if choice == "cmp_scalar":
                    return ("dsscalar", draw(st.sampled_from(["=", "<>", "<", "<=", ">", ">="])), a, s, left) if len(ma) == 1 else a
                op = draw(st.sampled_from(["+", "-", "*", "/"]))
                if op == "/" and not left and s[2] == 0 and draw(st.integers(0, 3)) > 0:
                    s = ("lit", "Integer", 2)
                return ("dsscalar", op, a, s, left)
            if isstr:
                s = draw(literal("String"))
                if choice == "cmp_scalar":
                    return ("dsscalar", draw(st.sampled_from(["=", "<>", "<", ">"])), a, s, left) if len(ma) == 1 else a
                return ("dsscalar", "||", a, s, left)
            if isbool:
                s = draw(literal("Boolean"))
                return ("dsscalar", draw(st.sampled_from(["and", "or", "xor"])), a, s, left)
            return a
        if choice == "un":
            if isnum:
                return ("dsun", draw(st.sampled_from(["-", "+"])), a)
            if isbool:
                return ("dsun", "not", a)
            return a
        if choice == "fn":
            if isnum:
                f = draw(st.sampled_from(["abs", "abs", "trunc2", "isnull"]))
                if f == "trunc2":
                    return ("dsfn", "trunc", a, [("lit", "Integer", draw(st.integers(0, 2)))])
                if f == "isnull" and (len(ma) != 1 or a[0] != "ds"):
                    return a
                return ("dsfn", f, a, [])
            if isstr:
                f = draw(st.sampled_from(["trim", "upper", "lower", "ltrim", "rtrim", "substr", "replace", "isnull"]))
                if f == "substr":
                    return ("dsfn", "substr", a, [("lit", "Integer", draw(st.integers(1, 3))), ("lit", "Integer", draw(st.integers(0, 4)))])
                if f == "replace":
                    return ("dsfn", "replace", a, [("lit", "String", draw(st.sampled_from(["a", "b", " "]))), ("lit", "String", draw(st.sampled_from(["", "Z"])))])
                if f == "isnull" and (len(ma) != 1 or a[0] != "ds"):
                    return a
                return ("dsfn", f, a, [])
            return a
        return a
    out = build(depth)
    if _ds_mult_scale(out) > 30:   # known finding C01-number-product-scale (see _cap_products)
        return leaf()
    from verif import diffrun
    if diffrun.rename_nested(out):
        # known finding C01-rename-nested: keep only the single-operator form over input datasets
        mono = [n for n in names if len(refvtl.measures_of(structs[n])) == 1]
        if not mono:
            return leaf()
        a = draw(st.sampled_from(mono))
        t = structs[a][refvtl.measures_of(structs[a])[0]][1]
        if draw(st.booleans()):
            lit_t = "Number" if t in ("Integer", "Number") else t
            ops = ["=", "<>", "<", "<=", ">", ">="] if t != "Boolean" else ["=", "<>"]
            return ("dsscalar", draw(st.sampled_from(ops)), ("ds", a), draw(literal(lit_t)), draw(st.booleans()))
        same = [n for n in mono if structs[n] == structs[a]]
        ops = ["=", "<>", "<", "<=", ">", ">="] if t != "Boolean" else ["=", "<>"]
        return ("dsbin", draw(st.sampled_from(ops)), ("ds", a), ("ds", draw(st.sampled_from(same))))
    # Type-changing functions (ceil/floor/trunc without precision: Number -> Integer, measure renamed int_var) are only
    # generated over an input dataset with one Number measure: nested under/over other dataset operators they hit the
    # known finding C01-typechange-nested (raw BinderException), which a dedicated probe reports.
    if draw(st.integers(0, 9)) == 0:
        cands = [n for n in names if [structs[n][m][1] for m in refvtl.measures_of(structs[n])] == ["Number"]]
        if cands:
            return ("dsfn", draw(st.sampled_from(["ceil", "floor", "trunc"])), ("ds", draw(st.sampled_from(cands))), [])
    return out


@st.composite
def clause_chain(draw, base_ir, structs, length, depth=2):
    """Wrap base_ir in `length` clauses (filter, calc, keep, drop, rename, sub)."""
    from verif import refvtl
    ir = base_ir
    counter = 0
    for _ in range(length):
        comps = ds_struct(ir, structs)
        ids, others = refvtl.ids_of(comps), [n for n in comps if comps[n][0] != "I"]
        kind = draw(st.sampled_from(["filter", "calc", "calc", "keep", "drop", "rename", "sub"]))
        if kind == "filter":
            cond = draw(expr("Boolean", comps, depth))
            if not has_comp(cond):  # a filter condition must be a component expression
                cond = ("bin", "or", cond, ("bin", "and", ("isnull", ("comp", sorted(comps)[0])), ("lit", "Boolean", False)))
            ir = ("clause", "filter", ir, cond)
        elif kind == "calc":
            items = []
            for _j in range(draw(st.integers(1, 2))):
                typ = draw(st.sampled_from(["Number", "Integer", "String", "Boolean"]))
                overwrite = others and draw(st.integers(0, 3)) == 0
                if overwrite:
                    name = draw(st.sampled_from(others))
                    role = comps[name][0]
                else:
                    counter += 1
                    name = "c_%d" % counter
                    role = draw(st.sampled_from(["M", "M", "A"]))
                if any(name == it[0] for it in items):
                    continue
                items.append((name, role, typ, draw(expr(typ, comps, depth))))
            ir = ("clause", "calc", ir, items)
        elif kind == "keep" and others:
            ks = draw(st.lists(st.sampled_from(others), min_size=1, max_size=len(others), unique=True))
            ir = ("clause", "keep", ir, ks)
        elif kind == "drop" and len(others) >= 2:
            ks = draw(st.lists(st.sampled_from(others), min_size=1, max_size=len(others) - 1, unique=True))
            ir = ("clause", "drop", ir, ks)
        elif kind == "rename":
            src = draw(st.lists(st.sampled_from(sorted(comps)), min_size=1, max_size=2, unique=True))
            pairs = []
            for s in src:
                counter += 1
                pairs.append((s, "r_%d" % counter))
            ir = ("clause", "rename", ir, pairs)
        elif kind == "sub" and len(ids) >= 2 and any(i in ID_VALUES for i in ids):
            i = draw(st.sampled_from([i for i in ids if i in ID_VALUES]))
            v = draw(st.sampled_from(ID_VALUES.get(i, [1])))
            ir = ("clause", "sub", ir, [(i, (comps[i][1], v))])
    return ir


# ---------------------------------------------------------------- aggregations / set operators
AGG_OPS = ["sum", "avg", "count", "min", "max", "median", "stddev_pop", "stddev_samp", "var_pop", "var_samp"]


@st.composite
def agg_case(draw):
    """(ci, ir) for C03: numeric dataset with 2-3 identifiers (repeated keys in the non-grouped ones), nulls, 0-12 rows."""
    ci = draw(case_inputs(family="num", n_datasets=1, max_rows=12))
    comps = ci["structs"]["DS_1"]
    ids = [n for n, (r, t) in comps.items() if r == "I"]
    meas = [n for n, (r, t) in comps.items() if r == "M"]
    op = draw(st.sampled_from(AGG_OPS))
    mode = draw(st.sampled_from(["by", "by", "except", "none"])) if ci["rows"]["DS_1"] else draw(st.sampled_from(["by", "except"]))
    gids = draw(st.lists(st.sampled_from(ids), min_size=1, max_size=len(ids), unique=True)) if mode != "none" else []
    if mode == "except" and len(gids) == len(ids) and len(ids) > 1:
        gids = gids[:-1]
    having = None
    # having: the engine accepts it only on single-measure operands (otherwise a raw ValueError, recorded under C32)
    if mode != "none" and len(meas) == 1 and draw(st.integers(0, 1)) == 0:
        hop = draw(st.sampled_from(["avg", "sum", "max", "min", "count"]))
        having = (hop, None if hop == "count" else draw(st.sampled_from(meas)), draw(st.sampled_from([">", ">=", "<", "="])),
                  ("lit", "Integer", draw(st.sampled_from([0, 1, 2]))) if hop == "count" else draw(literal("Number")))
    if op == "count" or (having is not None and having[0] == "count"):
        # count semantics with null measures are not settled by the offline sources: count only over complete datapoints
        ci = dict(ci, rows={"DS_1": [dict(r, **{m: (r[m] if r[m] is not None else "1") for m in meas}) for r in ci["rows"]["DS_1"]]})
    if draw(st.integers(0, 2)) == 0 and mode != "none":
        items = []
        for j in range(draw(st.integers(1, 3))):
            o = draw(st.sampled_from([x for x in AGG_OPS if x != "count"]))
            items.append(("a_%d" % (j + 1), draw(st.sampled_from(["M", "M", "A"])), o, draw(st.sampled_from(meas))))
        return ci, ("aggrclause", ("ds", "DS_1"), items, mode, gids, None)
    return ci, ("agg", op, ("ds", "DS_1"), mode, gids, having)


@st.composite
def setop_case(draw):
    """(ci, ir) for C05: 2-4 structurally equal operands with arbitrary key overlap and conflicting measures."""
    fam = draw(st.sampled_from(["num", "str", "bool"]))
    base = draw(case_inputs(family=fam, n_datasets=1, max_rows=6))
    comps = base["structs"]["DS_1"]
    k = draw(st.integers(2, 4))
    ids = [(n, t) for n, (r, t) in comps.items() if r == "I"]
    structs, rows = {}, {}
    for d in range(1, k + 1):
        cd = dict(comps)
        if d > 1 and draw(st.integers(0, 2)) == 0:  # same components declared in a different order
            items = list(comps.items())
            cd = dict(draw(st.permutations(items)))
        structs["DS_%d" % d] = cd
        keys = draw(st.lists(st.tuples(*[st.sampled_from(ID_VALUES[n]) for n, _ in ids]), min_size=0, max_size=6, unique=True))
        rr = []
        for key in keys:
            r = {n: str(v) for (n, _), v in zip(ids, key)}
            for n, (role, t) in comps.items():
                if role != "I":
                    r[n] = draw(st.one_of(st.none(), st.sampled_from(POOL[t])))
            rr.append(r)
        rows["DS_%d" % d] = rr
    ci = dict(structs=structs, rows=rows, family=fam)
    op = draw(st.sampled_from(["union", "union", "intersect", "intersect", "setdiff", "symdiff"]))
    n = k if op in ("union", "intersect") else 2
    names = list(draw(st.permutations(sorted(structs)))[:max(2, n)])
    if draw(st.integers(0, 5)) == 0:
        names[1] = names[0]  # the same dataset in two operand positions
    operands = []
    for nm in names:
        o = ("ds", nm)
        c = draw(st.integers(0, 7))
        if c == 0:
            o = ("clause", "filter", o, ("bin", "<>", ("comp", ids[0][0]), ("lit", ids[0][1], ID_VALUES[ids[0][0]][0])))
        elif c == 1:  # nested set operator as operand
            o = ("setop", draw(st.sampled_from(["union", "intersect", "setdiff", "symdiff"])), [o, ("ds", draw(st.sampled_from(sorted(structs))))])
        operands.append(o)
    if op in ("setdiff", "symdiff"):
        operands = operands[:2]
    return ci, ("setop", op, operands)


# ---------------------------------------------------------------- joins
@st.composite
def join_case(draw):
    """(ci, ir) for C04: 2-3 datasets, identifier sets equal or nested, distinct measure names except an optional shared
    Me_1 (disambiguated by alias), partial key overlap, optional using (= common identifiers) and a body."""
    kind = draw(st.sampled_from(["inner_join", "inner_join", "left_join", "left_join", "full_join"]))
    k = draw(st.integers(2, 3))
    n_ids = draw(st.integers(1, 3))
    full_ids = ID_POOL[:n_ids]
    shared = draw(st.booleans())
    structs, rows, operands = {}, {}, []
    for d in range(1, k + 1):
        ids = full_ids
        if kind != "full_join" and d > 1 and n_ids > 1 and draw(st.booleans()):
            ids = full_ids[:draw(st.integers(1, n_ids))]
        comps = {n: ("I", t) for n, t in ids}
        letter = "abc"[d - 1]
        for m in range(1, draw(st.integers(1, 2)) + 1):
            comps["M%s_%d" % (letter, m)] = ("M", draw(st.sampled_from(["Number", "Integer", "String", "Boolean"])))
        if shared and d <= 2:
            comps["Me_1"] = ("M", "Number")
        structs["DS_%d" % d] = comps
        keys = draw(st.lists(st.tuples(*[st.sampled_from(ID_VALUES[n]) for n, _ in ids]), min_size=0, max_size=6, unique=True))
        rr = []
        for key in keys:
            r = {n: str(v) for (n, _), v in zip(ids, key)}
            for n, (role, t) in comps.items():
                if role != "I":
                    r[n] = draw(st.one_of(st.none(), st.sampled_from(POOL[t])))
            rr.append(r)
        rows["DS_%d" % d] = rr
        operands.append((("ds", "DS_%d" % d), "d%d" % d))
    ci = dict(structs=structs, rows=rows, family="mixed")
    using = None
    body = []
    from verif import refvtl
    base = ("join", kind, operands, None, [])
    try:
        jc = refvtl.eval_ds(base, {n: (c, []) for n, c in structs.items()})[0]
    except refvtl.Unsupported:
        return ci, base
    if kind != "full_join" and draw(st.integers(0, 3)) == 0:
        common = [i for i, _ in full_ids if all(i in structs[n] for n in structs)]
        if common and all(sorted(x for x in structs[n] if structs[n][x][0] == "I") == sorted(common) for n in list(structs)[1:]):
            using = common
    non_ids = [n for n in jc if jc[n][0] != "I"]
    dup = [n for n in non_ids if "#" in n]
    cur = dict(jc)
    if dup:  # shared names must be disambiguated before anything else can reference or return them
        c = draw(st.integers(0, 2))
        if c == 0:
            pairs = [(n, "x%d" % (j + 1)) for j, n in enumerate(dup)]
            body.append(("rename", pairs)); m = dict(pairs); cur = {m.get(n, n): v for n, v in cur.items()}
        elif c == 1:
            body.append(("drop", dup)); cur = {n: v for n, v in cur.items() if n not in dup}
        else:  # drop one side only: the remaining alias#Me_1 is exposed as Me_1
            one = [draw(st.sampled_from(dup))]
            body.append(("drop", one)); cur = {n: v for n, v in cur.items() if n not in one}
    else:
        choice = draw(st.sampled_from(["none", "filter", "calc", "keep", "drop", "aggr", "filter+calc"]))
        others = [n for n in cur if cur[n][0] != "I"]
        if "filter" in choice:
            cond = draw(expr("Boolean", cur, 1))
            if not has_comp(cond):
                cond = ("bin", "or", cond, ("bin", "and", ("isnull", ("comp", sorted(cur)[0])), ("lit", "Boolean", False)))
            body.append(("filter", cond))
        if "calc" in choice:
            typ = draw(st.sampled_from(["Number", "Integer", "String", "Boolean"]))
            body.append(("calc", [("c_1", "M", typ, draw(expr(typ, cur, 2)))]))
        if choice == "keep" and others:
            body.append(("keep", draw(st.lists(st.sampled_from(others), min_size=1, max_size=len(others), unique=True))))
        if choice == "drop" and len(others) >= 2:
            body.append(("drop", draw(st.lists(st.sampled_from(others), min_size=1, max_size=len(others) - 1, unique=True))))
        if choice == "aggr":
            nums = [n for n in others if cur[n][1] in ("Number", "Integer")]
            idl = [n for n in cur if cur[n][0] == "I"]
            if nums:
                body.append(("aggr", ([("a_1", "M", draw(st.sampled_from(["sum", "max", "min", "avg"])), draw(st.sampled_from(nums)))], "by", [draw(st.sampled_from(idl))])))
    return ci, ("join", kind, operands, using, body)


# ---------------------------------------------------------------- analytic functions
AN_OPS = ["sum", "avg", "count", "min", "max", "median", "stddev_pop", "stddev_samp", "var_pop", "var_samp", "first_value", "last_value", "lag", "lead", "rank", "ratio_to_report"]
BOUND_ORDER = ["up", ("p", 3), ("p", 2), ("p", 1), ("p", 0), "cur", ("f", 0), ("f", 1), ("f", 2), ("f", 3), "uf"]


@st.composite
def analytic_case(draw):
    """(ci, ir) for C06: total orderings (order by = all identifiers not in the partition), all frame shapes with offsets 0-3."""
    ci = draw(case_inputs(family="num", n_datasets=1, max_rows=12))
    comps = ci["structs"]["DS_1"]
    ids = [n for n, (r, t) in comps.items() if r == "I"]
    meas = [n for n, (r, t) in comps.items() if r == "M"]
    op = draw(st.sampled_from(AN_OPS))
    partition = draw(st.lists(st.sampled_from(ids), min_size=0, max_size=len(ids) - 1, unique=True)) if len(ids) > 1 else []
    rest = [i for i in ids if i not in partition]
    orderby = [(i, draw(st.sampled_from(["asc", "desc"]))) for i in draw(st.permutations(rest))]
    window, params = None, []
    calc = draw(st.booleans()) or op in ("rank", "count")
    if op == "ratio_to_report":
        orderby = []
        if not partition:
            partition = [ids[0]]
    elif op in ("lag", "lead"):
        params = [draw(st.integers(1, 3))]
    elif op != "rank":
        w = draw(st.sampled_from(["none", "rows", "rows", "range", "noorder"]))
        if w == "noorder":
            # without an ordering only the whole-partition frame is determined (the default frame "unbounded preceding ..
            # current data point" over unordered datapoints is not): always written explicitly
            orderby = []
            window = ("rows", "up", "uf")
        elif w != "none":
            i1 = draw(st.integers(0, len(BOUND_ORDER) - 1))
            i2 = draw(st.integers(i1, len(BOUND_ORDER) - 1))
            if draw(st.integers(0, 5)) == 0:
                i1, i2 = 0, len(BOUND_ORDER) - 1   # whole partition WITH an ordering (first_value / last_value still depend on it)
            s_, e_ = BOUND_ORDER[i1], BOUND_ORDER[i2]
            if s_ == "uf": s_ = "cur"
            if e_ == "up": e_ = "cur"
            if BOUND_ORDER.index(s_) > BOUND_ORDER.index(e_): s_, e_ = e_, s_
            mode = "rows"
            if w == "range" and len(orderby) == 1 and comps[orderby[0][0]][1] == "Integer":
                mode = "range"
            window = (mode, s_, e_)
    if op in ("first_value", "last_value") and orderby and draw(st.booleans()):
        window = ("rows", "up", "uf")   # whole partition with an ordering: the value still depends on asc / desc
    if op == "count":
        ci = dict(ci, rows={"DS_1": [dict(r, **{m: (r[m] if r[m] is not None else "1") for m in meas}) for r in ci["rows"]["DS_1"]]})
    measure = draw(st.sampled_from(meas)) if calc else None
    target = "an_1" if calc else None
    if op == "rank":
        measure = None
    ir = ("analytic", op, ("ds", "DS_1"), measure, partition, orderby, window, params, target)
    # two analytic calls in one script: the second mirrors the directions of the first frame (same offsets)
    if calc and window is not None and op not in ("rank", "lag", "lead", "ratio_to_report", "count") and draw(st.booleans()):
        def mirror(b):
            return ("f", b[1]) if isinstance(b, tuple) and b[0] == "p" else ("p", b[1]) if isinstance(b, tuple) else {"up": "uf", "uf": "up", "cur": "cur"}[b]
        s2, e2 = mirror(window[2]), mirror(window[1])
        op2 = draw(st.sampled_from(["sum", "min", "max", "first_value", "last_value", "avg"]))
        ir = ("analytic", op2, ir, measure, partition, orderby, (window[0], s2, e2), [], "an_2")
    return ci, ir


@st.composite
def dsif_case(draw):
    """(ci, ir): if C then A else B at dataset level; C boolean mono-measure with nulls; partial key overlap."""
    n_ids = draw(st.integers(1, 2))
    ids = ID_POOL[:n_ids]
    fam = draw(st.sampled_from(["num", "str"]))
    n_meas = draw(st.integers(1, 2))
    structs, rows = {}, {}
    mt = [draw(st.sampled_from(FAMILIES[fam])) for _ in range(n_meas)]
    for name, kind in (("DS_1", "bool"), ("DS_2", fam), ("DS_3", fam)):
        comps = {n: ("I", t) for n, t in ids}
        if kind == "bool":
            comps["Me_1"] = ("M", "Boolean")
        else:
            order = list(range(n_meas))
            # (then/else branches declaring the same measures in a different order are rejected with 1-1-9-13: not generated)
            for j in order:
                comps["Me_%d" % (j + 1)] = ("M", mt[j])
        structs[name] = comps
        keys = draw(st.lists(st.tuples(*[st.sampled_from(ID_VALUES[n]) for n, _ in ids]), min_size=0, max_size=6, unique=True))
        rows[name] = [dict({n: str(v) for (n, _), v in zip(ids, key)}, **{c: draw(st.one_of(st.none(), st.sampled_from(POOL[t]))) for c, (role, t) in comps.items() if role != "I"}) for key in keys]
    return dict(structs=structs, rows=rows, family=fam), ("dsif", ("ds", "DS_1"), ("ds", "DS_2"), ("ds", "DS_3"))
