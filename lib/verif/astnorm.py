"""Structural view of engine AST nodes ignoring positions (used by C23/C24/C25)."""
import dataclasses, enum

POS = {"line_start", "column_start", "line_stop", "column_stop"}
# An omitted mode keyword (None) and the explicitly written default denote the same operation: both the
# Interpreter and the SQL transpiler substitute exactly these defaults for None (Interpreter/__init__.py
# visit_HROperation / visit_DPValidation, Transpiler visit_HROperation).
DEFAULTS = {
    ("HROperation", "validation_mode"): {None: "NON_NULL"},
    ("HROperation", "input_mode"): {"hierarchy": "RULE", "check_hierarchy": "DATASET"},
    ("HROperation", "output"): {"hierarchy": "COMPUTED", "check_hierarchy": "INVALID"},
    ("DPValidation", "output"): {None: "INVALID"},
}


def norm(node, drop_comments=True, keep_par=True):
    if dataclasses.is_dataclass(node) and not isinstance(node, type):
        cls = type(node).__name__
        if cls == "Comment" and drop_comments:
            return None
        if cls == "ParFunction" and not keep_par:
            return norm(node.operand, drop_comments, keep_par)
        out = []
        for f in dataclasses.fields(node):
            if f.name in POS:
                continue
            v = getattr(node, f.name)
            if v is None and (cls, f.name) in DEFAULTS:
                d = DEFAULTS[(cls, f.name)]
                v = d.get(getattr(node, "op", None), d.get(None))
                out.append((f.name, ("enum", "", v) if v is not None else None))
                continue
            out.append((f.name, norm(v, drop_comments, keep_par)))
        return ("@node", cls, tuple(out))
    if isinstance(node, (list, tuple)):
        items = [norm(x, drop_comments, keep_par) for x in node]
        if drop_comments:
            items = [x for x, raw in zip(items, node) if not (x is None and type(raw).__name__ == "Comment")]
        return ("list",) + tuple(items)
    if isinstance(node, dict):
        return ("dict",) + tuple(sorted((repr(k), norm(v, drop_comments, keep_par)) for k, v in node.items()))
    if isinstance(node, enum.Enum):
        return ("enum", "", node.name)
    if isinstance(node, type):
        return ("type", node.__name__)
    if isinstance(node, (str, int, float, bool)) or node is None:
        return node if not isinstance(node, float) else ("float", repr(node))
    # engine Model objects (Dataset / Component in EvalOp) and anything else
    if hasattr(node, "components") and hasattr(node, "name"):
        return ("Dataset", node.name, tuple((n, c.role.name, c.data_type.__name__, c.nullable) for n, c in node.components.items()))
    if hasattr(node, "__dict__") and not callable(node):
        return ("obj", type(node).__name__) + tuple(sorted((k, norm(v, drop_comments, keep_par)) for k, v in vars(node).items() if not k.startswith("_")))
    return ("repr", repr(node) if " at 0x" not in repr(node) else type(node).__name__)


def first_diff(a, b, path="$"):
    """-> None or (path, a_sub, b_sub) of the first structural difference."""
    if type(a) != type(b):
        return (path, a, b)
    if isinstance(a, tuple):
        if a and a[0] in ("float", "enum", "type", "repr"):
            return None if a == b else (path, a, b)
        if len(a) != len(b):
            return (path + "#len", a, b)
        if a and a[0] == "@node":
            if a[1] != b[1] or len(a[2]) != len(b[2]):
                return (path, a, b)
            for (fa, va), (fb, vb) in zip(a[2], b[2]):
                d = first_diff(va, vb, path + "." + a[1] + "." + fa)
                if d:
                    return d
            return None
        for i, (x, y) in enumerate(zip(a, b)):
            d = first_diff(x, y, path + "[%d]" % i if i else path)
            if d:
                return d
        return None
    return None if a == b else (path, a, b)


def comments(node):
    out = []
    if dataclasses.is_dataclass(node) and not isinstance(node, type):
        if type(node).__name__ == "Comment":
            out.append(node.value)
        for f in dataclasses.fields(node):
            out += comments(getattr(node, f.name))
    elif isinstance(node, (list, tuple)):
        for x in node:
            out += comments(x)
    return out
