"""Per-type validity predicates for engine OUTPUT values (docs/data_types.rst)."""
import datetime, re

DATE_RE = re.compile(r"^(\d{4})-(\d{2})-(\d{2})(?:T(\d{2}):(\d{2}):(\d{2})(?:\.(\d{1,6}))?)?$")
PERIOD_RE = {
    "vtl": re.compile(r"^(\d{4})(?:()|S([12])|Q([1-4])|M(1[0-2]|[1-9])|W(5[0-3]|[1-4]\d|[1-9])|D(36[0-6]|3[0-5]\d|[12]\d\d|[1-9]\d|[1-9]))$"),
    "sdmx_reporting": re.compile(r"^(\d{4})-(?:A1|S[12]|Q[1-4]|M(0[1-9]|1[0-2])|W(0[1-9]|[1-4]\d|5[0-3])|D(00[1-9]|0[1-9]\d|[12]\d\d|3[0-5]\d|36[0-6]))$"),
    "sdmx_gregorian": re.compile(r"^(\d{4})(?:-(0[1-9]|1[0-2])(?:-(0[1-9]|[12]\d|3[01]))?)?$"),
    "natural": re.compile(r"^(\d{4})(?:-(?:S[12]|Q[1-4]|W(0[1-9]|[1-4]\d|5[0-3])|(0[1-9]|1[0-2])(?:-(0[1-9]|[12]\d|3[01]))?))?$"),
}


def valid_date(s):
    m = DATE_RE.match(s) if isinstance(s, str) else None
    if not m:
        return False
    try:
        datetime.date(int(m.group(1)), int(m.group(2)), int(m.group(3)))
        if m.group(4) is not None:
            datetime.time(int(m.group(4)), int(m.group(5)), int(m.group(6)))
        return True
    except ValueError:
        return False


def conforms(typ, v, period_format="vtl"):
    """v is a normalised, non-null output cell."""
    if typ == "Integer":
        return (isinstance(v, int) and not isinstance(v, bool)) or (isinstance(v, float) and v == int(v))
    if typ == "Number":
        return isinstance(v, (int, float)) and not isinstance(v, bool)
    if typ == "String":
        return isinstance(v, str)
    if typ == "Boolean":
        return isinstance(v, bool)
    if typ == "Date":
        return valid_date(v)
    if typ in ("TimePeriod", "Time_Period"):
        return isinstance(v, str) and bool(PERIOD_RE[period_format].match(v))
    if typ in ("TimeInterval", "Time"):
        if not isinstance(v, str) or v.count("/") != 1:
            return False
        a, b = v.split("/")
        return valid_date(a) and valid_date(b) and a[:10] <= b[:10]
    if typ == "Duration":
        return v in ("A", "S", "Q", "M", "W", "D")
    if typ == "Null":
        return True
    return True
