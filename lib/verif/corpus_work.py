import os, signal, time, warnings
from verif import corpus, eng


class CaseTimeout(BaseException):
    pass


def _alarm(sig, frm):
    raise CaseTimeout()


def with_timeout(seconds, fn, *a, **kw):
    old = signal.signal(signal.SIGALRM, _alarm)
    signal.alarm(seconds)
    try:
        return fn(*a, **kw)
    finally:
        signal.alarm(0)
        signal.signal(signal.SIGALRM, old)


def classify(ids, log=None):
    warnings.filterwarnings("ignore")
    from vtlengine import run
    cases = {c["id"]: c for c in corpus.harvest()}
    out = []
    for i in ids:
        c = cases[i]; t = time.time()
        try:
            with_timeout(120, run, **corpus.run_kwargs(c)); st = "ok"
        except CaseTimeout:
            st = "timeout"
        except BaseException as e:  # noqa
            st = eng.classify_exc(e)
        out.append((i, st, round(time.time() - t, 3)))
        if log:
            with open(log, "a") as f:
                f.write("%s\t%s\t%.2f\n" % out[-1])
    return out
