"""Materialise one logical table (header + rows of optional strings) in the engine's input forms."""
import csv, os


def read_csv_table(path):
    """-> (header, rows) with cells as str or None (unquoted empty = None), using the stdlib reader
    (empty string and null are not distinguished here: both become None, as the engine's CSV loader does)."""
    with open(path, newline="", encoding="utf-8-sig") as f:
        rows = list(csv.reader(f))
    if not rows:
        return [], []
    header = rows[0]
    body = [[(v if v != "" else None) for v in r] + [None] * (len(header) - len(r)) for r in rows[1:] if r]
    return header, body


def write_csv(path, header, rows):
    with open(path, "w", newline="", encoding="utf-8") as f:
        w = csv.writer(f)
        w.writerow(header)
        for r in rows:
            w.writerow(["" if v is None else v for v in r])
    return path


def to_frame(header, rows):
    import pandas as pd
    return pd.DataFrame({h: pd.Series([r[i] for r in rows], dtype="object") for i, h in enumerate(header)})


def write_parquet(path, header, rows):
    import pyarrow as pa, pyarrow.parquet as pq
    t = pa.table({h: pa.array([r[i] for r in rows], type=pa.string()) for i, h in enumerate(header)})
    pq.write_table(t, path)
    return path


def permute(header, rows, row_perm=None, col_perm=None):
    if row_perm is not None:
        rows = [rows[i] for i in row_perm]
    if col_perm is not None:
        header2 = [header[i] for i in col_perm]
        rows = [[r[i] for i in col_perm] for r in rows]
        header = header2
    return header, rows


def materialise(form, name, header, rows, tmpdir, tag=""):
    import pathlib
    if form == "csv":
        return pathlib.Path(write_csv(os.path.join(tmpdir, "%s%s.csv" % (name, tag)), header, rows))
    if form == "parquet":
        d = os.path.join(tmpdir, "pq%s" % tag)
        os.makedirs(d, exist_ok=True)
        return pathlib.Path(write_parquet(os.path.join(d, "%s.parquet" % name), header, rows))
    if form == "df":
        return to_frame(header, rows)
    raise ValueError(form)
