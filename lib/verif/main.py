import argparse, importlib, os, sys, traceback


def main():
    ap = argparse.ArgumentParser()
    ap.add_argument("pid")
    ap.add_argument("--tier", default=os.environ.get("VERIF_TIER") or "quick", choices=["quick", "thorough"])
    ap.add_argument("--replay")
    a = ap.parse_args()
    seed = int(os.environ.get("VERIF_SEED") or "1")
    from verif import core, shim
    try:
        shim.install()
        mod = importlib.import_module("checks." + a.pid.lower())
        ctx = core.Ctx(a.pid, a.tier, seed, getattr(mod, "LEVEL", "exploration"))
        if a.replay:
            sys.exit(mod.replay(ctx, a.replay))
        mod.run(ctx)
        sys.exit(ctx.finish())
    except (core.HarnessError, shim.HarnessError) as e:
        print("HARNESS-ERROR %s: %s" % (a.pid, e), file=sys.stderr)
        sys.exit(2)
    except SystemExit:
        raise
    except BaseException:
        traceback.print_exc()
        print("HARNESS-ERROR %s: unexpected exception in the check itself" % a.pid, file=sys.stderr)
        sys.exit(2)


if __name__ == "__main__":
    main()
