"""Script texts for the parser checks (C23, C31): corpus scripts, generated scripts, token-level mutations, random text, nesting bombs."""
import re

TOKEN = re.compile(r'"[^"]*"|/\*.*?\*/|//[^\n]*|[A-Za-z_][A-Za-z0-9_.]*|\d+(?:\.\d+)?|:=|<-|<>|<=|>=|\|\||->|\s+|.', re.S)
KEYWORDS = ["if", "then", "else", "case", "when", "calc", "filter", "keep", "drop", "rename", "to", "aggr", "group", "by", "except", "all", "having", "over", "partition", "order", "asc", "desc",
            "inner_join", "left_join", "full_join", "cross_join", "as", "using", "union", "intersect", "setdiff", "symdiff", "sum", "avg", "count", "min", "max", "cast", "integer", "number", "string",
            "boolean", "date", "time_period", "define", "operator", "returns", "is", "end", "datapoint", "hierarchical", "ruleset", "rule", "variable", "valuedomain", "errorcode", "errorlevel",
            "check", "check_datapoint", "check_hierarchy", "hierarchy", "invalid", "and", "or", "xor", "not", "in", "not_in", "between", "isnull", "nvl", "null", "true", "false", "eval", "language",
            "viral", "propagation", "aggregate", "identifier", "measure", "attribute", "data", "points", "range", "preceding", "following", "unbounded", "current", "sub", "pivot", "unpivot", "apply"]
PUNCT = ["(", ")", "[", "]", "{", "}", ";", ",", ":=", "<-", "#", "+", "-", "*", "/", "=", "<>", "<", ">", "||", ":", '"', "'", "/*", "*/", "//", "\\", "\x00", "\t", "\n", "\r\n", "\r", "\x0c", "\x0b", "\x1c", "\x85", "\u2028", "€", "​"]


def tokens(text):
    return TOKEN.findall(text)


def mutation_strategy(text):
    """Hypothesis strategy: `text` with 1-3 token-level edits (delete, duplicate, swap, replace by keyword / punctuation, insert)."""
    from hypothesis import strategies as st
    toks = tokens(text)
    n = len(toks)
    if n == 0:
        return st.just(text)
    edit = st.tuples(st.sampled_from(["delete", "duplicate", "swap", "replace_kw", "replace_punct", "insert_kw", "insert_punct", "truncate"]), st.integers(0, n - 1), st.sampled_from(KEYWORDS), st.sampled_from(PUNCT))

    def apply(edits):
        t = list(toks)
        for kind, i, kw, pu in edits:
            if not t:
                break
            i = i % len(t)
            if kind == "delete":
                del t[i]
            elif kind == "duplicate":
                t.insert(i, t[i])
            elif kind == "swap" and len(t) > 1:
                j = (i + 1) % len(t)
                t[i], t[j] = t[j], t[i]
            elif kind == "replace_kw":
                t[i] = kw
            elif kind == "replace_punct":
                t[i] = pu
            elif kind == "insert_kw":
                t.insert(i, " " + kw + " ")
            elif kind == "insert_punct":
                t.insert(i, pu)
            elif kind == "truncate":
                t = t[:i]
        return "".join(t)
    return st.lists(edit, min_size=1, max_size=3).map(apply)


def random_text_strategy():
    from hypothesis import strategies as st
    frag = st.one_of(st.sampled_from(KEYWORDS), st.sampled_from(PUNCT), st.sampled_from(["DS_1", "Me_1", "Id_1", "R", "1", "2.5", '"a"', "'q n'", " ", " ", "\n"]),
                     st.text(max_size=6), st.characters(min_codepoint=0, max_codepoint=0x2FFF).map(str), st.binary(max_size=6).map(lambda b: b.decode("utf-8", "replace")))
    return st.lists(frag, max_size=40).map("".join)


def nesting_bombs(depths=(10, 50, 200, 1000, 3000)):
    out = []
    for d in depths:
        out.append(("parens:%d" % d, "R := " + "(" * d + "DS_1" + ")" * d + ";"))
        out.append(("unbalanced_parens:%d" % d, "R := " + "(" * d + "DS_1;"))
        out.append(("if:%d" % d, "R := " + "if DS_1 then " * d + "DS_2" + " else DS_3" * d + ";"))
        out.append(("clauses:%d" % d, "R := DS_1" + "[filter Me_1 > 0]" * d + ";"))
        out.append(("binary:%d" % d, "R := DS_1" + " + DS_1" * d + ";"))
        out.append(("unary:%d" % d, "R := " + "not " * d + "DS_1;"))
        out.append(("calls:%d" % d, "R := " + "abs(" * d + "DS_1" + ")" * d + ";"))
        out.append(("statements:%d" % d, "".join("R_%d := DS_1 + %d;\n" % (i, i) for i in range(d))))
        out.append(("braces:%d" % d, "R := DS_1 [filter Me_1 in " + "{" * d + "1" + "}" * d + "];"))
        out.append(("comment_open:%d" % d, "R := DS_1; " + "/* " * d))
    return out
