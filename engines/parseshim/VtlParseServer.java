import org.antlr.v4.runtime.*;
import org.antlr.v4.runtime.atn.*;
import org.antlr.v4.runtime.tree.*;
import java.io.*;
import java.nio.charset.StandardCharsets;
import java.nio.file.*;
import java.util.*;

public class VtlParseServer {
    static List<String> readStrs(String p) throws IOException {
        List<String> out = new ArrayList<>();
        for (String l : Files.readAllLines(Paths.get(p), StandardCharsets.UTF_8)) out.add(unjson(l));
        return out;
    }
    static String unjson(String s) {
        // minimal JSON string decoder
        StringBuilder b = new StringBuilder();
        for (int i = 1; i < s.length() - 1; i++) {
            char c = s.charAt(i);
            if (c == '\\') { char n = s.charAt(++i);
                switch (n) { case 'n': b.append('\n'); break; case 't': b.append('\t'); break; case 'r': b.append('\r'); break;
                  case 'u': b.append((char) Integer.parseInt(s.substring(i+1, i+5), 16)); i += 4; break; default: b.append(n); } }
            else b.append(c);
        }
        return b.toString();
    }
    static String json(String s) {
        StringBuilder b = new StringBuilder("\"");
        for (int i = 0; i < s.length(); i++) { char c = s.charAt(i);
            if (c == '"' || c == '\\') b.append('\\').append(c);
            else if (c < 0x20 || c > 0x7e) b.append(String.format("\\u%04x", (int) c));
            else b.append(c); }
        return b.append('"').toString();
    }
    static int[] readInts(String p) throws IOException {
        List<String> ls = Files.readAllLines(Paths.get(p)); int[] a = new int[ls.size()];
        for (int i = 0; i < a.length; i++) a[i] = Integer.parseInt(ls.get(i).trim()); return a;
    }
    static String[] nullify(List<String> l) { String[] a = new String[l.size()]; for (int i=0;i<a.length;i++) a[i] = l.get(i).isEmpty()? null : l.get(i); return a; }

    static class Ctx extends InterpreterRuleContext {
        int primaryAlt = 0, loopAlt = 0; boolean recursion = false;
        Ctx(ParserRuleContext parent, int invokingState, int ruleIndex) { super(parent, invokingState, ruleIndex); }
    }
    static class P extends ParserInterpreter {
        Map<Integer,Integer> primaryBlock = new HashMap<>(), loopBlock = new HashMap<>();
        P(String g, Vocabulary v, Collection<String> rn, ATN atn, TokenStream in) {
            super(g, v, rn, atn, in);
            for (int r = 0; r < atn.ruleToStartState.length; r++) {
                ATNState first = atn.ruleToStartState[r].transition(0).target;
                if (first instanceof BlockStartState) primaryBlock.put(first.stateNumber, r);
            }
            for (ATNState s : atn.states) if (s instanceof StarLoopEntryState && ((StarLoopEntryState) s).isPrecedenceDecision) {
                ATNState blk = s.transition(0).target;
                loopBlock.put(blk.stateNumber, s.ruleIndex);
            }
        }
        @Override protected InterpreterRuleContext createInterpreterRuleContext(ParserRuleContext parent, int invokingStateNumber, int ruleIndex) {
            return new Ctx(parent, invokingStateNumber, ruleIndex);
        }
        @Override protected void visitState(ATNState p) {
            ParserRuleContext before = _ctx;
            super.visitState(p);
            if (p instanceof StarLoopEntryState && ((StarLoopEntryState) p).isPrecedenceDecision && _ctx != before && _ctx instanceof Ctx) {
                Ctx c = (Ctx) _ctx; c.recursion = true; if (c.loopAlt == 0) c.loopAlt = 1;
            }
        }
        @Override protected int visitDecisionState(DecisionState p) {
            int alt = super.visitDecisionState(p);
            if (_ctx instanceof Ctx) { Ctx c = (Ctx) _ctx;
                if (loopBlock.containsKey(p.stateNumber)) c.loopAlt = alt;
                else if (primaryBlock.containsKey(p.stateNumber) && c.primaryAlt == 0 && !c.recursion) c.primaryAlt = alt;
            }
            return alt;
        }
    }
    static class Err extends BaseErrorListener {
        String first = null;
        @Override public void syntaxError(Recognizer<?, ?> r, Object off, int line, int col, String msg, RecognitionException e) {
            if (first != null) return;
            String t = (off instanceof Token) ? ((Token) off).getText() : "";
            int ul = 1;
            if (off instanceof Token) { int a = ((Token) off).getStartIndex(), b = ((Token) off).getStopIndex(); if (b != -1 && b >= a) ul = b - a + 1; }
            first = "E " + line + " " + col + " " + ul + " " + json(msg) + " " + json(t == null ? "" : t);
        }
    }
    public static void main(String[] a) throws Exception {
        Thread t = new Thread(null, () -> { try { run(a); } catch (Throwable e) { e.printStackTrace(); System.exit(3); } }, "srv", 1L << 30);
        t.start(); t.join();
    }
    static void run(String[] a) throws Exception {
        String d = a[0];
        ATN latn = new ATNDeserializer().deserialize(readInts(d + "/lexer.atn"));
        ATN patn = new ATNDeserializer().deserialize(readInts(d + "/parser.atn"));
        Vocabulary lv = new VocabularyImpl(nullify(readStrs(d + "/lexer.literals")), nullify(readStrs(d + "/lexer.symbolic")));
        Vocabulary pv = new VocabularyImpl(nullify(readStrs(d + "/parser.literals")), nullify(readStrs(d + "/parser.symbolic")));
        List<String> lrules = readStrs(d + "/lexer.rules"), lch = readStrs(d + "/lexer.channels"), lmodes = readStrs(d + "/lexer.modes");
        List<String> prules = readStrs(d + "/parser.rules");
        int ML = -1, SL = -1;
        for (int i = 0; i <= pv.getMaxTokenType(); i++) { String s = pv.getSymbolicName(i); if ("ML_COMMENT".equals(s)) ML = i; if ("SL_COMMENT".equals(s)) SL = i; }
        DataInputStream in = new DataInputStream(new BufferedInputStream(System.in));
        PrintStream out = new PrintStream(new BufferedOutputStream(new FileOutputStream(FileDescriptor.out), 1 << 16), false, "UTF-8");
        while (true) {
            String hdr = in.readLine(); if (hdr == null) break;
            String[] h = hdr.trim().split(" ");
            byte[] buf = new byte[Integer.parseInt(h[1])]; in.readFully(buf);
            String text = new String(buf, StandardCharsets.UTF_8);
            try {
                Err err = new Err();
                LexerInterpreter lx = new LexerInterpreter("VtlTokens.g4", lv, lrules, lch, lmodes, latn, CharStreams.fromString(text));
                lx.removeErrorListeners(); lx.addErrorListener(err);
                CommonTokenStream ts = new CommonTokenStream(lx);
                P p = new P("Vtl.g4", pv, prules, patn, ts);
                p.removeErrorListeners(); p.addErrorListener(err);
                boolean prof = h[0].endsWith("P");
                if (prof) p.setProfile(true);
                p.getInterpreter().setPredictionMode(h[0].startsWith("LL") ? PredictionMode.LL : PredictionMode.SLL);
                ParserRuleContext tree = p.parse(0);
                ts.fill();
                StringBuilder sb = new StringBuilder();
                emit(tree, sb);
                for (Token t : ts.getTokens()) if (t.getType() == ML || t.getType() == SL)
                    sb.append("C ").append(t.getType()).append(' ').append(t.getLine()).append(' ').append(t.getCharPositionInLine()).append(' ').append(json(t.getText())).append('\n');
                if (err.first != null) sb.append(err.first).append('\n');
                if (prof) for (DecisionInfo di : p.getParseInfo().getDecisionInfo())
                    if (di.invocations > 0) sb.append("F ").append(di.decision).append(' ').append(di.invocations).append(' ').append(di.LL_Fallback).append(' ').append(di.ambiguities.size()).append(' ').append(di.SLL_MaxLook).append(' ').append(di.LL_MaxLook).append('\n');
                out.print(sb); out.print("END\n");
            } catch (Throwable t) {
                out.print("X " + json(t.toString()) + "\nEND\n");
            }
            out.flush();
        }
    }
    static void emit(ParseTree root, StringBuilder sb) {
        ArrayDeque<ParseTree> st = new ArrayDeque<>(); st.push(root);
        while (!st.isEmpty()) {
            ParseTree n = st.pop();
            if (n instanceof TerminalNode) { Token t = ((TerminalNode) n).getSymbol();
                sb.append(n instanceof ErrorNode ? "Z " : "T ").append(t.getType()).append(' ').append(t.getLine()).append(' ').append(t.getCharPositionInLine()).append(' ').append(json(t.getText() == null ? "" : t.getText())).append('\n');
                continue; }
            ParserRuleContext c = (ParserRuleContext) n; Ctx x = (c instanceof Ctx) ? (Ctx) c : null;
            Token a = c.getStart(), b = c.getStop();
            sb.append("R ").append(c.getRuleIndex()).append(' ').append(x == null ? 0 : x.primaryAlt).append(' ').append(x == null ? 0 : x.loopAlt).append(' ').append(x != null && x.recursion ? 1 : 0)
              .append(' ').append(c.getChildCount()).append(' ').append(a == null ? 0 : a.getLine()).append(' ').append(a == null ? 0 : a.getCharPositionInLine())
              .append(' ').append(b == null ? 0 : b.getLine()).append(' ').append(b == null ? 0 : b.getCharPositionInLine()).append(' ').append(json(b == null || b.getText() == null ? "" : b.getText())).append('\n');
            for (int i = c.getChildCount() - 1; i >= 0; i--) st.push(c.getChild(i));
        }
    }
}
