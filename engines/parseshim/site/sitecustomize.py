# Put this directory on PYTHONPATH to run arbitrary programs (e.g. the upstream pytest
# suite) with the parser shim installed.
import os, sys
sys.path.insert(0, os.path.join(os.path.dirname(os.path.dirname(os.path.dirname(os.path.dirname(os.path.abspath(__file__))))), "lib"))
from verif import shim
shim.install()
