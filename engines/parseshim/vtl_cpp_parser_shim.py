"""Stand-in for the compiled `vtl_cpp_parser` extension (DESIGN.md §2.1).

Parse trees come from an ANTLR 4.11.1 Java ParserInterpreter running over the serialized
ATN embedded in /repo's generated Vtl.cpp / VtlTokens.cpp.  The module mirrors the public
surface of bindings.cpp: parse, ParseNode, TerminalNode, get_comments, get_input_text,
get_syntax_error, token and RULE_* constants.

Like the real extension it keeps ONE process-global "last parse" state.  The real
ParseNode holds raw pointers into that state which dangle after the next parse(); the
shim models this: touching a not-yet-materialised part of a tree that belongs to an
older parse raises ShimUseAfterFree (only the accesses that would dereference the
dangling pointer in bindings.cpp: first `.children`, start/stop positions, `.text`).
"""
import atexit, json, os, subprocess, threading

_D = os.environ["VERIF_SHIM_DATA"]
_CLASSES = os.environ["VERIF_SHIM_CLASSES"]
_JAR = os.environ["VERIF_SHIM_JAR"]
_meta = json.load(open(os.path.join(_D, "shim.json")))
_ALT = {(r, k, a): idx for r, k, a, idx in _meta["altmap"]}
_RULES_WITH_ALTS = {r for r, _, _, _ in _meta["altmap"]}
globals().update(_meta["consts"])
RULE_NAMES = _meta["rules"]


class ShimUseAfterFree(RuntimeError):
    pass


class ShimServerError(RuntimeError):
    """The Java parse server failed (harness problem, never a property violation)."""


class _Gen:
    __slots__ = ("alive",)
    def __init__(self): self.alive = True


class TerminalNode:
    __slots__ = ("symbol_type", "text", "line", "column")
    is_terminal = True
    def __init__(self, t, text, line, col):
        self.symbol_type, self.text, self.line, self.column = t, text, line, col


class ParseNode:
    __slots__ = ("rule_index", "alt_index", "_children", "_touched", "_gen", "_pos", "_stop_text")
    is_terminal = False

    def _chk(self):
        if not self._gen.alive:
            raise ShimUseAfterFree("parse tree node of an earlier parse() accessed after a later parse()")

    @property
    def children(self):
        if not self._touched:
            self._chk(); self._touched = True
        return self._children
    @property
    def ctx_id(self): return (self.rule_index, self.alt_index)
    @property
    def start_line(self): self._chk(); return self._pos[0]
    @property
    def start_column(self): self._chk(); return self._pos[1]
    @property
    def stop_line(self): self._chk(); return self._pos[2]
    @property
    def stop_column(self): self._chk(); return self._pos[3]
    @property
    def stop_text(self): self._chk(); return self._stop_text
    @property
    def text(self):
        self._chk()
        out, st = [], [self]
        while st:
            n = st.pop()
            if n.is_terminal: out.append(n.text)
            else: st.extend(reversed(n._children))
        return "".join(out)
    def getText(self): return self.text


_lock = threading.Lock()
_proc = None
_state = {"text": "", "comments": [], "error": None, "gen": _Gen(), "profile": None}
_UAF = os.environ.get("VERIF_SHIM_UAF", "1") == "1"


def _kill():
    global _proc
    if _proc is not None:
        try: _proc.kill()
        except Exception: pass
        _proc = None


def _server():
    global _proc
    if _proc is None or _proc.poll() is not None or getattr(_proc, "_pid_owner", None) != os.getpid():
        _proc = subprocess.Popen(["java", "-Xss512m", "-Xmx1g", "-XX:+UseSerialGC", "-XX:TieredStopAtLevel=1", "-cp", _JAR + ":" + _CLASSES, "VtlParseServer", _D],
                                 stdin=subprocess.PIPE, stdout=subprocess.PIPE, stderr=subprocess.DEVNULL)
        _proc._pid_owner = os.getpid()
        atexit.register(_kill)
    return _proc


def _raw(text, mode):
    with _lock:
        p = _server(); b = text.encode("utf-8", "surrogatepass")
        try:
            p.stdin.write(("%s %d\n" % (mode, len(b))).encode() + b); p.stdin.flush()
            lines = []
            while True:
                l = p.stdout.readline()
                if not l:
                    _kill(); raise ShimServerError("parse server died")
                l = l.decode("utf-8").rstrip("\n")
                if l == "END": break
                lines.append(l)
        except BrokenPipeError:
            _kill(); raise ShimServerError("parse server pipe broken")
        return lines


def _src_line(src, line, col1):
    ls = src.split("\n")
    if line < 1 or line > len(ls): return "", col1
    out = ""; remapped = col1; oc = 1
    for c in ls[line - 1]:
        if oc == col1: remapped = len(out) + 1
        if c == "\t": out += "    "
        elif c != "\r": out += c
        oc += 1
    if col1 > oc: remapped = len(out) + 1
    return out, remapped


def _build(text, lines, gen):
    comments = []; error = None; root = None; stack = []; profile = []
    for l in lines:
        k = l[0]
        if k == "R":
            f = l.split(" ", 10)
            n = ParseNode(); ri = int(f[1]); pa, la, rec, nch = int(f[2]), int(f[3]), int(f[4]), int(f[5])
            n.rule_index = ri
            n.alt_index = _ALT.get((ri, "l", la) if rec else (ri, "p", pa or 1), -1) if ri in _RULES_WITH_ALTS else -1
            n._children = []; n._touched = False; n._gen = gen
            n._pos = (int(f[6]), int(f[7]), int(f[8]), int(f[9])); n._stop_text = json.loads(f[10])
            if stack: stack[-1][0]._children.append(n)
            else: root = n
            stack.append([n, nch])
        elif k in "TZ":
            f = l.split(" ", 4)
            stack[-1][0]._children.append(TerminalNode(int(f[1]), json.loads(f[4]), int(f[2]), int(f[3])))
        elif k == "C":
            f = l.split(" ", 4); comments.append({"type": int(f[1]), "text": json.loads(f[4]), "line": int(f[2]), "column": int(f[3])}); continue
        elif k == "E":
            f = l.split(" ", 4); dec = json.JSONDecoder(); msg, e = dec.raw_decode(f[4]); off = json.loads(f[4][e:].strip())
            sl, col = _src_line(text, int(f[1]), int(f[2]) + 1)
            error = {"line": int(f[1]), "column": col - 1, "message": msg, "offending_text": off, "source_line": sl, "underline_length": int(f[3])}; continue
        elif k == "F":
            profile.append(tuple(int(x) for x in l.split(" ")[1:])); continue
        elif k == "X":
            raise ShimServerError(l)
        while stack and len(stack[-1][0]._children) == stack[-1][1]: stack.pop()
    return root, comments, error, profile


def parse(text, mode="SLL"):
    lines = _raw(text, mode)
    gen = _Gen()
    root, comments, error, profile = _build(text, lines, gen)
    old = _state["gen"]
    if _UAF: old.alive = False
    _state.update(text=text, comments=comments, error=error, gen=gen, profile=profile)
    return root


def parse_detached(text, mode="SLL"):
    """Harness-only entry (C31): parse without touching the module's last-parse state."""
    lines = _raw(text, mode)
    return _build(text, lines, _Gen())


def get_input_text(): return _state["text"]
def get_comments(): return list(_state["comments"])
def get_syntax_error(): return _state["error"]
