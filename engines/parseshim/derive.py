"""Derive everything the parser shim needs from /repo's *current* generated C++ parser
sources: serialized ATNs, vocabularies, rule names, (rule, primary|loop, alt) -> alt_index.

Two independent derivations of the labelled-alternative order are compared (Vtl.cpp vs
Vtl.g4); a disagreement is a harness error (exit 2), never a violation.
Usage: derive.py <repo> <outdir>
"""
import json, os, re, sys, hashlib


def lc(s):
    return s[0].lower() + s[1:]


def grab(path):
    src = open(path, encoding="utf-8").read()
    m = re.search(r"static const int32_t serializedATNSegment\[\] = \{(.*?)\};", src, re.S)
    atn = [int(x) for x in re.findall(r"-?\d+", m.group(1))]
    m2 = re.search(r"make_unique<\w+StaticData>\((.*?)\n  \);", src, re.S)
    vecs = re.findall(r"std::vector<std::string>\{(.*?)\n    \}", m2.group(1), re.S)
    out = []
    for v in vecs:
        items = re.findall(r'"((?:[^"\\]|\\.)*)"', v)
        out.append([bytes(i, "utf-8").decode("unicode_escape") for i in items])
    return atn, out, src


def alts_from_cpp(src, rules):
    """rule -> {'p': [label...], 'l': [label...]} from the order of createInstance calls."""
    res = {}
    heads = [(m.start(), lc(m.group(1))) for m in re.finditer(r"^Vtl::(\w+)Context\* Vtl::\w+\((?:int precedence)?\) \{", src, re.M)]
    heads.append((len(src), None))
    for (a, name), (b, _) in zip(heads, heads[1:]):
        body = src[a:b]
        if name not in rules or "_tracker.createInstance" not in body:
            continue
        if "enterRecursionRule" in body:
            prim = re.findall(r"case (\d+): \{\s*_localctx = _tracker\.createInstance<(\w+)Context>\(_localctx\)", body)
            loop = re.findall(r"case (\d+): \{\s*auto newContext = _tracker\.createInstance<(\w+)Context>\(", body)
            p = [None] * len(prim); l = [None] * len(loop)
            for n, lab in prim: p[int(n) - 1] = lc(lab)
            for n, lab in loop: l[int(n) - 1] = lc(lab)
            res.setdefault(name, {"p": p, "l": l})
        else:
            pairs = re.findall(r"_localctx = _tracker\.createInstance<Vtl::(\w+)Context>\(_localctx\);\s*enterOuterAlt\(_localctx, (\d+)\);", body)
            if pairs:
                p = [None] * max(int(n) for _, n in pairs)
                for lab, n in pairs: p[int(n) - 1] = lc(lab)
                res.setdefault(name, {"p": p, "l": []})
    return res


def alts_from_g4(path):
    src = open(path, encoding="utf-8").read()
    src = re.sub(r"/\*.*?\*/", "", src, flags=re.S)
    src = re.sub(r"//[^\n]*", "", src)
    body = src.split(";", 1)[1]
    body = re.sub(r"options\s*\{[^}]*\}", "", body)
    res = {}
    for m in re.finditer(r"([a-z][A-Za-z0-9_]*)\s*:(.*?);", body, re.S):
        name, rhs = m.group(1), m.group(2)
        alts, depth, cur = [], 0, ""
        for ch in rhs:
            if ch in "([": depth += 1
            elif ch in ")]": depth -= 1
            if ch == "|" and depth == 0: alts.append(cur); cur = ""
            else: cur += ch
        alts.append(cur)
        prim, lbin, lsuf = [], [], []
        for a in alts:
            a = a.strip()
            lm = re.search(r"#\s*(\w+)\s*$", a)
            label = lc(lm.group(1)) if lm else None
            a2 = re.sub(r"#\s*\w+\s*$", "", a).strip()
            first = re.match(r"(?:\w+\s*=\s*)?(\w+)", a2)
            lr = bool(first and first.group(1) == name)
            last = re.search(r"(\w+)\s*$", a2)
            binary = bool(lr and last and last.group(1) == name)
            (prim if not lr else lbin if binary else lsuf).append(label)
        if any(x is not None for x in prim + lbin + lsuf):
            res[name] = {"p": prim, "l": lbin + lsuf}
    return res


def main(repo, out):
    cpp = os.path.join(repo, "src/vtlengine/AST/Grammar/_cpp_parser")
    patn, pv, psrc = grab(os.path.join(cpp, "Vtl.cpp"))
    latn, lv, _ = grab(os.path.join(cpp, "VtlTokens.cpp"))
    rules = pv[0]
    bnd = open(os.path.join(cpp, "bindings.cpp"), encoding="utf-8").read()
    label_alt = {}
    for m in re.finditer(r"g_type_map\[typeid\(Vtl::(\w+)Context\)\]\s*=\s*\{Vtl::Rule(\w+),\s*(-?\d+)\}", bnd):
        label_alt[lc(m.group(1))] = (rules.index(lc(m.group(2))), int(m.group(3)))
    a_cpp = alts_from_cpp(psrc, rules)
    a_g4 = alts_from_g4(os.path.join(repo, "src/vtlengine/AST/Grammar/Vtl.g4"))
    diffs = []
    for r in sorted(set(a_cpp) | set(a_g4)):
        if a_cpp.get(r) != a_g4.get(r):
            diffs.append((r, a_cpp.get(r), a_g4.get(r)))
    if diffs:
        sys.stderr.write("parseshim: Vtl.cpp and Vtl.g4 disagree on labelled alternatives: %r\n" % diffs[:3])
        sys.exit(2)
    altmap = []
    for r, d in a_cpp.items():
        ri = rules.index(r)
        for kind in ("p", "l"):
            for i, label in enumerate(d[kind], 1):
                if label is None:
                    idx = label_alt.get(r, (ri, -1))[1]
                else:
                    if label not in label_alt:
                        sys.stderr.write("parseshim: label %s missing from g_type_map\n" % label); sys.exit(2)
                    idx = label_alt[label][1]
                altmap.append([ri, kind, i, idx])
    consts = {}
    for i, s in enumerate(pv[2]):
        if s: consts[s] = i
    consts["TOKEN_EOF"] = -1
    for m in re.finditer(r'm\.attr\("(RULE_\w+)"\)\s*=\s*static_cast<int>\(Vtl::Rule(\w+)\)', bnd):
        consts[m.group(1)] = rules.index(lc(m.group(2)))
    os.makedirs(out, exist_ok=True)
    def w(name, lst):
        with open(os.path.join(out, name), "w") as f:
            for x in lst:
                f.write(json.dumps(x) if isinstance(x, str) else str(x)); f.write("\n")
    w("parser.atn", patn); w("lexer.atn", latn)
    w("parser.rules", pv[0]); w("parser.literals", pv[1]); w("parser.symbolic", pv[2])
    w("lexer.rules", lv[0]); w("lexer.channels", lv[1]); w("lexer.modes", lv[2]); w("lexer.literals", lv[3]); w("lexer.symbolic", lv[4])
    json.dump({"altmap": altmap, "consts": consts, "rules": rules, "labels": a_cpp}, open(os.path.join(out, "shim.json"), "w"))


def tree_hash(repo):
    cpp = os.path.join(repo, "src/vtlengine/AST/Grammar/_cpp_parser")
    h = hashlib.sha1()
    for f in ("Vtl.cpp", "VtlTokens.cpp", "bindings.cpp"):
        h.update(open(os.path.join(cpp, f), "rb").read())
    h.update(open(os.path.join(repo, "src/vtlengine/AST/Grammar/Vtl.g4"), "rb").read())
    h.update(open(__file__, "rb").read())
    return h.hexdigest()[:16]


if __name__ == "__main__":
    main(sys.argv[1], sys.argv[2])
