#!/usr/bin/env python3
"""Regenerate MANIFEST.json from the table below and validate it against the schema."""
import json, os, sys
V = os.path.dirname(os.path.dirname(os.path.abspath(__file__)))
props = [json.loads(l) for l in open(os.path.join(V, "properties.jsonl"))]

CHECKS = {
 "C26": dict(cat="exploration", tech="exhaustive static enumeration of raise sites (python ast) + Hypothesis-generated construction of every site's exception + dynamic probes",
   text="Every coded raise site of the current tree is enumerated (exhaustive over the finite set of sites) and its error is constructed with generated argument values; complete for literal-code sites, dynamic-code sites are only counted.",
   note="Trusts python's ast for call-site discovery; sites that compute their code or pass **kwargs are listed, not asserted. Reachability of each site by a script is shown only for the probes listed in the check.", ref="§3 C26"),
}
NOT_YET = "check not built yet in this session (work in progress, see DESIGN.md §5)"

m = {
 "version": 1,
 "setup_cmd": "./setup.sh",
 "hooks": {"guard": "MEANINGFUL_DATA_VTLENGINE_VERIF", "enable": "no source hooks: checks observe the engine through its public API, an import hook for the unbuildable native parser (engines/parseshim) and monkey-patched connection proxies installed by the checks themselves when the guard variable is 1",
           "baseline_off_cmd": "cd /repo && /venv/bin/python -m pytest -ra -q -p no:cacheprovider --timeout=900 --continue-on-collection-errors", "source_commits": [], "add_only": True},
 "engines": [
   {"name": "parseshim", "path": "engines/parseshim", "serves_properties": [p["id"] for p in props], "kind_free_text": "ANTLR 4.11.1 Java ParserInterpreter over the ATN embedded in the repo's generated C++ parser, injected as vtl_cpp_parser by an import hook"},
 ],
 "checks": [], "not_applicable": [],
 "notes": "All checks: ./check <ID> [--tier quick|thorough] [--replay FILE]; exit 2 = harness error. Known findings: known_findings.json.",
}
for p in props:
    i = p["id"]
    if i in CHECKS:
        c = CHECKS[i]
        m["checks"].append({"property_id": i, "quick_cmd": "./check %s --tier quick" % i, "thorough_cmd": "./check %s --tier thorough" % i,
            "evidence_file": "evidence/%s.json" % i, "replay_cmd_template": "./check %s --replay {path}" % i, "engine": "parseshim",
            "level_claimed": {"category": c["cat"], "text": c["text"], "design_ref": c["ref"]}, "level_note": c["note"], "technique": c["tech"]})
    else:
        m["not_applicable"].append({"property_id": i, "reason": NOT_YET})
json.dump(m, open(os.path.join(V, "MANIFEST.json"), "w"), indent=1)
try:
    import jsonschema
    jsonschema.validate(m, json.load(open("/root/.vp/MANIFEST.schema.json")))
    print("MANIFEST.json valid:", len(m["checks"]), "checks,", len(m["not_applicable"]), "not_applicable")
except ImportError:
    print("jsonschema not available; not validated")
