#!/usr/bin/env python3
"""Regenerate MANIFEST.json from the table below and validate it against the schema."""
import json, os, sys
V = os.path.dirname(os.path.dirname(os.path.abspath(__file__)))
props = [json.loads(l) for l in open(os.path.join(V, "properties.jsonl"))]

CHECKS = {
 "C26": dict(cat="exploration", tech="exhaustive static enumeration of raise sites (python ast) + Hypothesis-generated construction of every site's exception + dynamic probes",
   text="Every coded raise site of the current tree is enumerated (exhaustive over the finite set of sites) and its error is constructed with generated argument values; complete for literal-code sites, dynamic-code sites are only counted.",
   note="Trusts python's ast for call-site discovery; sites that compute their code or pass **kwargs are listed, not asserted. Reachability of each site by a script is shown only for the probes listed in the check.", ref="§3 C26"),
 "C24": dict(cat="exploration", tech="round-trip + metamorphic property testing (Hypothesis script grammar + whole upstream corpus), AST equality oracle, run-level differential",
   text="prettify is checked on every parseable corpus script and on generated scripts: output parses, AST equal modulo positions/comments/explicit defaults, idempotent, comments kept, run() results equal on executable cases.",
   note="Parse trees come from the parser stand-in (ANTLR 4.11.1 Java interpreter over the repo's ATN, SLL). AST equality treats an omitted mode keyword and the explicitly written default as equal. Generated-input search: absence of violations is not a proof.", ref="§3 C24"),
 "C25": dict(cat="exploration", tech="round-trip + differential property testing: generate_sdmx scheme vs script (corpus + Hypothesis grammar), run(scheme)==run(script)",
   text="For every parseable corpus script and generated scripts: one transformation per assignment (name, persistence, order), expressions and ruleset/UDO definitions re-parse to the original AST, run(scheme) equals run(script) on executable cases.",
   note="run(scheme) goes through the installed pysdmx generate_vtl_script. Known finding C25-viral-def-dropped is reported by a dedicated probe and excluded from the run-level comparison.", ref="§3 C25"),
 "C12": dict(cat="exploration", tech="metamorphic property testing over statement permutations (Hypothesis-generated dependency graphs + corpus), negative cycle/redefinition cases",
   text="All tested orders of the top-level statements (all permutations for <=3 statements, <=6 in the thorough tier, sampled beyond) must be accepted alike and give equal semantic structures and run results; generated cycles / redefinitions must raise 1-3-2-3 / 1-2-2 in every order.",
   note="Statements are cut at parse-tree boundaries of the parser stand-in. Permutations beyond the exhaustive bound are sampled.", ref="§3 C12"),
 "C10": dict(cat="exploration", tech="property testing with a validity-predicate oracle: run() output vs semantic_analysis() structure, per-type value predicates (corpus x 4 period formats + generated scripts)",
   text="Every dataset returned by run() on corpus and generated scripts is compared with the semantic_analysis prediction (names, roles, types, nullability, column order) and its values are checked against per-type predicates, identifier uniqueness/non-null and nullability.",
   note="Value predicates are transcribed from docs/data_types.rst output forms; an Integer cell may be an integral float. Known finding C10-hr-errorlevel-string reported by a probe.", ref="§3 C10"),
 "C14": dict(cat="exploration", tech="differential property testing: in-memory run vs output_folder run read back with independent CSV/Parquet readers (corpus + Hypothesis tables with quoting/null edge values)",
   text="Same run in memory and with output_folder (csv/parquet x return_only_persistent): file set, headers, rows as keyed sets, _scalars.csv and absence of in-memory data are compared.",
   note="CSV read with an own RFC 4180 parser (keeps null vs empty string), Parquet with pyarrow; numeric tolerance 1e-9 relative.", ref="§3 C14"),
 "C01": dict(cat="exploration", tech="differential property testing against an independent reference interpreter (refvtl) over Hypothesis-generated typed scripts and data",
   text="Generated dataset-level operator trees and component-level expressions (arithmetic, comparison, boolean, string, membership, conditional, numeric functions) over generated data with nulls and partial key overlap are run by the engine from text and evaluated as IR by refvtl; results compared as keyed sets, expected runtime errors must be VTL errors.",
   note="refvtl is grounded in the property statement, docs and ReferenceManual examples; shapes those sources do not settle are not generated (round ties, mod with negatives/zero, overlapping case conditions, out-of-domain ln/sqrt/log). Known finding C01-rename-nested is excluded by construction and reported by a probe.", ref="§3 C01"),
 "C02": dict(cat="exploration", tech="differential property testing against refvtl over Hypothesis-generated clause chains",
   text="Clause chains of length 1-4 (filter/calc/keep/drop/rename/sub) over mixed-type generated datasets are compared with refvtl as keyed sets (keys kept, components added/overwritten/renamed/removed, values).",
   note="Chains start from input datasets (clauses over join results are exercised in C04); same reference and exclusions as C01.", ref="§3 C02"),
 "C33": dict(cat="exploration", tech="metamorphic property testing: row permutations and column reorderings of every input in CSV / DataFrame / Parquet form (Hypothesis tables + corpus)",
   text="For generated order-sensitive scripts (set operators, aggregations, analytics with total orders, joins, viral folds with an associative-commutative rule) and corpus cases, all permutations of small inputs (<=3 rows quick, <=6 thorough) or sampled permutations plus column shuffles must give the same keyed result set as the identity arrangement in the same input form.",
   note="Corpus scripts with analytic windows are skipped (possible ties); inputs up to a few hundred rows only (large-input order dependence is C15's subject).", ref="§3 C33"),
 "C22": dict(cat="exploration", tech="property testing with a snapshot invariant: deep snapshot of all arguments before/after generated API calls (valid and invalid inputs)",
   text="Generated calls to run, run_sdmx, semantic_analysis, validate_dataset, prettify and generate_sdmx with DataFrames of many shapes (BOM/extra/missing columns, dtypes, indexes), dict/list structures (both key spellings), value domains, routines and scalar values; arguments must be unchanged after the call whether it returns or raises.",
   note="Snapshots compare columns, dtypes, index and repr of every cell; URL datapoints (network) are not reachable in the sandbox.", ref="§3 C22"),
 "C03": dict(cat="exploration", tech="differential property testing against refvtl (exact rational aggregates) over Hypothesis-generated aggregation statements",
   text="sum/avg/count/min/max/median/stddev/var with group by / group except / no grouping, having, standalone and in aggr clauses, over generated data with nulls, repeated keys, all-null and single-row groups; one datapoint per group in both directions.",
   note="count only over data without null measures, having only on single-measure operands, aggregates of empty ungrouped datasets not generated (not settled by the offline sources).", ref="§3 C03"),
 "C04": dict(cat="exploration", tech="differential property testing against refvtl (relational join) over Hypothesis-generated joins of 2-3 datasets",
   text="inner/left/full joins with equal or nested identifier sets, partial key overlap, shared measure names disambiguated by alias, optional using and a filter/calc/keep/drop/rename/aggr body are compared with a reference relational join (keys, multiplicities, nulls for the missing side).",
   note="cross_join and using on non-common identifiers are not generated.", ref="§3 C04"),
 "C05": dict(cat="exploration", tech="differential property testing against refvtl over Hypothesis-generated set expressions (2-4 operands)",
   text="union (first operand wins), intersect over ALL operands, setdiff, symdiff over structurally equal generated datasets with arbitrary key overlap and conflicting measures, including operands that are expressions.",
   note="small inputs; large multi-threaded inputs are C15's subject.", ref="§3 C05"),
 "C06": dict(cat="exploration", tech="differential property testing against refvtl (literal frame evaluation) + metamorphic shuffle of input rows",
   text="16 analytic functions at dataset level and inside calc, partitions, total orderings, data-points/range windows with offsets 0-3 and unbounded bounds, lag/lead offsets 1-3; result recomputed literally per datapoint and re-run on shuffled input.",
   note="orderings are total by construction; a framed function without order by is generated only with the explicit whole-partition window; count only over non-null data.", ref="§3 C06"),
 "C09": dict(cat="exploration", tech="exhaustive enumeration of the 8x8 cast table x 3 levels with value pools, oracle = documented tables transcribed as data",
   text="Every (source, target) pair at scalar, component and dataset level: forbidden pairs must be SemanticErrors, allowed pairs must convert every pool value as documented, unconvertible values must raise VTL errors, dataset-level measure renaming as documented.",
   note="Exhaustive over pairs, pooled over values; renderings the docs leave open are only required to be non-null. Known findings: doc/engine table disagreement (6 pairs), unconvertible values accepted, raw conversion errors for periods/dates.", ref="§3 C09"),
 "C11": dict(cat="exploration", tech="exhaustive enumeration of 9x9 operand type pairs x operator type declarations (direct promotion functions) and 8x8 pairs x 18 operators x 3 levels through semantic_analysis; oracle = documented implicit-cast table",
   text="All type pairs for every (type_to_check, return_type) declared by an operator class: acceptance <=> documented common type admitted, check_* agrees with *_promotion, documented result type, order independence for commutative operators; the same through real scripts at scalar, component and dataset level.",
   note="Complete for the finite domain named; admitted types are read from the operator classes of the current tree.", ref="§3 C11"),
 "C27": dict(cat="exploration", tech="exhaustive enumeration of pysdmx DataType x Role x object kind + Hypothesis structures; oracle = documented mapping tables",
   text="Every SDMX data type and role as Schema / DataStructureDefinition / Dataflow through to_vtl_json and semantic_analysis, plus run_sdmx on in-memory PandasDatasets and generated structures of 1-5 components: documented role, type and nullability per component; undocumented types must raise InputValidationException.",
   note="SDMX-ML/JSON files and URLs are not exercised (no xml extra, no network).", ref="§3 C27"),
 "C30": dict(cat="exploration", tech="exhaustive enumeration of both precision settings (-5..45) in fresh subprocesses + Hypothesis sequences of settings within one process; oracle = documented ranges and exact decimal arithmetic",
   text="Every integer value of each variable and the boundary cross product (thorough: all 51x51 pairs), each in a fresh process: documented accept/reject (error 0-4-1-1), stored values quantised to the scale, out-of-precision values rejected, sums/differences equal exact decimals; sequences of settings in one process must behave like fresh processes.",
   note="Returned values are float64, compared with the exact decimal result within a few ulps; a width smaller than the scale may be rejected with the configuration error.", ref="§3 C30"),
 "C08": dict(cat="exploration", tech="exhaustive bulk enumeration of periods and dates of a year range against Python datetime + Hypothesis time series (timeshift inverse/injectivity, flow/stock)",
   text="Every period of every indicator and every date of 1996-2032 (thorough 1900-2100) through period_indicator, getyear/getmonth/dayofmonth/dayofyear, time_agg, datediff, dateadd and timeshift, compared with the proleptic Gregorian / ISO-8601 calendars of Python; generated series with gaps for shifts in -60..60.",
   note="Complete for the year range named; operator/argument combinations the offline sources do not settle (time_agg from weeks, month/year dateadd clamping) are excluded.", ref="§3 C08"),
 "C21": dict(cat="exploration", tech="exhaustive bulk enumeration of every period x documented input spelling x output format for a year range; round trip; Python-vs-SQL differential",
   text="All valid periods of 1996-2032 (thorough 1900-2100) in every documented spelling and all four output formats: accepted, rendered as documented (or VTL error where the format cannot express the indicator), rendered value re-read to the same value, Python and SQL implementations agree; plus a sample of years 1-9999.",
   note="Paddings the docs do not show follow the month example of the same format; known finding for years below 1000.", ref="§3 C21"),
 "C18": dict(cat="exploration", tech="differential property testing across input forms (CSV / string DataFrame / string Parquet / native DataFrame / native Parquet) over a labelled value catalogue + Hypothesis tables",
   text="Every labelled spelling (valid, boundary, invalid, undocumented) of every component type as a cell of the same logical table in each input form: the outcome class and, when accepted, the results must be identical across forms.",
   note="Native forms are only produced when every cell is the canonical spelling of a native value. Known findings: Integer strings from DataFrame/Parquet, time part lost from string Parquet.", ref="§3 C18"),
 "C19": dict(cat="exploration", tech="property testing with a validity-predicate oracle (documented input formats + calendar) over a labelled value catalogue and Hypothesis tables with injected structural violations",
   text="Each documented-invalid spelling / structural violation must raise a data-load or input-validation error under a pass-through and a projection script (separating load validation from output formatting); each documented-valid spelling must be accepted and returned as the value it denotes.",
   note="Spellings the docs leave open are not asserted. Six known findings (period numbers beyond the calendar, Boolean 'yes', Date year < 1800, lenient Integer strings from DataFrames, unvalidated intervals, documented short Time forms rejected).", ref="§3 C19"),
 "C20": dict(cat="exploration", tech="differential property testing: validate_dataset vs run() on the same generated inputs (value catalogue + structural violations), DataFrame and CSV",
   text="validate_dataset raises exactly when run('R <- DS_1;') rejects the input with a VTL input error, for every catalogue spelling and for tables with structural violations.",
   note="Purely an agreement check (no validity predicate). Known findings list the value classes on which the pandas validator and the DuckDB loader disagree.", ref="§3 C20"),
 "C13": dict(cat="model_checking", tech="exhaustive enumeration of dependency graphs replayed against an abstract table-store model + real create/drop traces of run() recorded by a catalog-diff connection proxy",
   text="Every dependency graph within the bound (<=4 statements thorough / <=3 quick, <=2 global inputs, fan-in <=2, all persistent masks, several textual orders) is scheduled by the real DAGAnalyzer and the schedule replayed against a model store (loaded at most once, resident when read, released exactly once after the last reader, store empty at the end); the same invariants are checked on real traces of run() and the returned result selection.",
   note="Model = tables as names; traces observe catalog diffs after each non-SELECT call. Bound-exhaustive only.", ref="§3 C13"),
 "C16": dict(cat="fault_enumeration", tech="exhaustive fault injection at every call on the DuckDB connection (counting proxy installed at duckdb.connect) + real faults + Hypothesis stateful sequences of failing and good runs",
   text="For every configuration (script, CSV/DataFrame inputs, output folder, in-memory/file-backed) every one of the K connection calls is a fault point; after each failing run: no session directory, no database file, connection closed, no fd into the temp dir, and a following good run equals the reference; plus malformed inputs, unwritable output folder, invalid engine settings and sequences of up to 3 failures.",
   note="Faults are injected at the Python boundary of the connection; native-level faults are not simulated. Quick tier enumerates all fault points of a rotating subset of configurations, thorough of all 128.", ref="§3 C16"),
 "C17": dict(cat="exploration", tech="controlled-schedule exploration: sys.settrace gate scheduler forcing enumerated and Hypothesis-generated interleavings of two or three API calls at engine function boundaries + 8-thread stress batches; oracle = each call's single-threaded result",
   text="Pairs/triples of API calls (run with different scripts, output formats, viral rules, number configuration, semantic_analysis, prettify, validate_dataset, create_ast) are suspended at 13 engine functions that read or write process-wide state and released in enumerated orders (k steps of one thread, then the other, for every k within the bound; all short alternations) and in generated orders; every call must return exactly what it returns alone and no schedule may hang.",
   note="Interleavings are explored at Python function granularity at the gated functions only; preemption inside native code (DuckDB, parser) is exercised only by the stress batches. A stall is reported as a violation only when a thread is blocked in an engine lock; other stalls are harness errors (exit 2).", ref="§3 C17"),
 "C28": dict(cat="exploration", tech="Hypothesis-generated (propagation rule, operator class, data) cases against an independent executable model of the stated propagation rules (pair / fold / single / whole-operand / unchanged / rejected) + row-permutation metamorphic relation",
   text="Aggregate (min max sum avg) and enumerated rule tables (priority chains, random unary/binary tables, with and without default) x 18 operator classes (ds-ds binary, chains and nested forms, unary, ds-scalar, group and whole-dataset aggregation, analytic window, filter/calc/rename, assignment, set operators, inner/left join, no rule) over data with null and conflicting viral values; every determined result datapoint's viral value equals the model, a missing rule is rejected by semantic_analysis, and permuting input rows never changes the result.",
   note="Enumerated group folds are compared exactly only for rule tables that are associative and commutative (brute force over the value closure); null paired with a value under sum/avg, unmatched left_join rows, intersect/setdiff are only checked for order independence; hierarchy and validation operators are not covered.", ref="§3 C28"),
 "C29": dict(cat="exploration", tech="metamorphic property testing: each generated (template, data) case is run with names differing only in letter case and with really different names (control); outcomes and renamed results must coincide",
   text="22 script templates (binary, calc, filter, keep, drop, rename, membership, group by / group except, aggr clause, analytic, joins, union, two statements, clause chains, sub, exists_in, if, datapoint ruleset) x 8 collision sites (two input measures, two identifiers, identifier vs measure, two input datasets, two results, result vs input, new component vs existing) over generated data with per-component distinct values.",
   note="The property is broken at its root on this tree (DuckDB identifiers are case-insensitive): three known findings, one per site class; any other difference from the control (wrong value, missing component, other error) is still a violation.", ref="§3 C29"),
 "C23": dict(cat="exploration", tech="Hypothesis token-level mutation fuzzing of corpus and generated scripts + random text + nesting bombs + Hypothesis stateful (rule-based) parse/prettify histories; oracle = outcome class, error-location bounds, first-parse agreement",
   text="create_ast on mutated, random and deeply nested texts returns an AST or raises a VTL error, a syntax error's line/column lie inside the input, and in histories of up to 20 parse / prettify calls over valid and broken texts every text parses to the same AST / error and prettifies to the same text as the first time.",
   note="TRUSTED BASE: the parse tree and raw error record come from the parser stand-in (ANTLR Java interpreter over the repository's shipped ATN); crashes, hangs or memory errors inside the native extension (bindings.cpp) are not observable here - only the Python half (create_ast, AST construction, comments, error-location arithmetic, cross-parse state) is decided. Known finding: RecursionError beyond a few hundred nesting levels.", ref="§3 C23, §4"),
 "C31": dict(cat="exploration", tech="differential fuzzing: every text parsed by the same ANTLR interpreter in SLL and in LL prediction mode over the repository's shipped ATN; corpus + Hypothesis-generated scripts + token-level mutations + random text; complete outputs compared",
   text="For all corpus scripts, generated scripts of five grammars plus hand-written sentences for rare rules, their token mutations and random token soup: accept/reject, the whole parse tree (rules, alternatives, tokens, error nodes), the first error position and message, and the comments are identical in both prediction modes; profiling counters show which cases exercised ambiguous / multi-token decisions.",
   note="TRUSTED BASE: ANTLR 4.11.1 Java runtime over the ATN embedded in the repository's generated C++ parser, not the C++ runtime's SLL implementation and not do_parse itself (bindings.cpp cannot be compiled here). Sentences are not an exhaustive ATN walk; rules never exercised are listed in the evidence. No seeded mutants: the grammar cannot be regenerated offline.", ref="§3 C31, §4"),
 "C15": dict(cat="exploration", tech="differential property testing across engine configurations: each generated / corpus / bulk (script, inputs) case is run under the reference configuration twice and under sampled settings of VTL_THREADS x VTL_USE_IN_MEMORY_DB x VTL_MEMORY_LIMIT x VTL_TEMP_DIRECTORY; results compared as sets of datapoints",
   text="Small cases from six generators (clauses, aggregations, set operators, joins, analytic functions with total orderings, dataset expressions) and corpus cases, plus 27 bulk scripts over 2x10^5-row (thorough 10^6-row) shuffled inputs (group aggregations, analytic first/lag/running/rank/window, joins, all set operators, clauses, validation, time series, multi-statement): identical datapoints on repetition and under 12 other configurations whenever the runs complete.",
   note="Each case samples 2-3 of the 12 non-reference configurations; resource errors under a reduced memory limit are inconclusive. Bulk values are dyadic so sums are exact; otherwise relative tolerance 1e-9. Absence of nondeterminism is not established beyond 10^6 rows / 16 threads.", ref="§3 C15"),
 "C07": dict(cat="exploration", tech="Hypothesis-generated (ruleset, data, validation mode, output mode) cases against an independent three-valued evaluation of every rule on every datapoint (reference model written in the check)",
   text="check_datapoint (1-5 rules, when-conditions, and/or, error codes and levels, named/unnamed, invalid/all/all_measures), check (six comparison operators, dataset or scalar right side, imbalance, invalid/all) and check_hierarchy / hierarchy (1-3 rules with signed sums and five comparison operators, all six validation modes, all output modes): returned datapoints, bool_var, errorcode/errorlevel placement, imbalance = left - right, retained measures and computed items equal the model.",
   note="Hierarchical operators are decided only in the region where all validation modes coincide (every mentioned code item present, non-null and non-zero in each group, no rule reading another rule's result): mode-specific handling of missing/null/zero items and rule ordering are NOT decided. errorlevel is compared numerically (its column type is C10's matter); check() without an output keyword is taken to mean 'all'.", ref="§3 C07"),
}
NOT_YET = "check not built yet in this session (work in progress, see DESIGN.md §5)"

m = {
 "version": 1,
 "setup_cmd": "./setup.sh",
 "hooks": {"guard": "MEANINGFUL_DATA_VTLENGINE_VERIF", "enable": "no source hooks: checks observe the engine through its public API, an import hook for the unbuildable native parser (engines/parseshim) and monkey-patched connection proxies installed by the checks themselves when the guard variable is 1",
           "baseline_off_cmd": "cd /repo && /venv/bin/python -m pytest -ra -q -p no:cacheprovider --timeout=900 --continue-on-collection-errors", "source_commits": [], "add_only": True},
 "engines": [
   {"name": "parseshim", "path": "engines/parseshim", "serves_properties": [p["id"] for p in props], "kind_free_text": "ANTLR 4.11.1 Java ParserInterpreter over the ATN embedded in the repo's generated C++ parser, injected as vtl_cpp_parser by an import hook"},
 ],
 "checks": [], "not_applicable": [],
 "notes": "All checks: ./check <ID> [--tier quick|thorough] [--replay FILE]; exit 2 = harness error. Known findings: known_findings.json.",
}
for p in props:
    i = p["id"]
    if i in CHECKS:
        c = CHECKS[i]
        m["checks"].append({"property_id": i, "quick_cmd": "./check %s --tier quick" % i, "thorough_cmd": "./check %s --tier thorough" % i,
            "evidence_file": "evidence/%s.json" % i, "replay_cmd_template": "./check %s --replay {path}" % i, "engine": "parseshim",
            "level_claimed": {"category": c["cat"], "text": c["text"], "design_ref": c["ref"]}, "level_note": c["note"], "technique": c["tech"]})
    else:
        m["not_applicable"].append({"property_id": i, "reason": NOT_YET})
json.dump(m, open(os.path.join(V, "MANIFEST.json"), "w"), indent=1)
try:
    import jsonschema
    jsonschema.validate(m, json.load(open("/root/.vp/MANIFEST.schema.json")))
    print("MANIFEST.json valid:", len(m["checks"]), "checks,", len(m["not_applicable"]), "not_applicable")
except ImportError:
    print("jsonschema not available; not validated")
