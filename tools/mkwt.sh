#!/bin/bash
# tools/mkwt.sh C12 ... : create scratch worktrees /tmp/wt-<id> of /repo HEAD for mutation sub-agents
for id in "$@"; do
  git -C /repo worktree remove --force /tmp/wt-$id 2>/dev/null
  git -C /repo worktree add -q --detach /tmp/wt-$id HEAD && mkdir -p /tmp/wt-$id/MUTANT && echo "/tmp/wt-$id ready"
done
