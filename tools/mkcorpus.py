#!/venv/bin/python
"""Rebuild corpus_baseline.txt: ids of upstream corpus cases on which run() succeeds on the current tree."""
import collections, os, sys
V = os.path.dirname(os.path.dirname(os.path.abspath(__file__)))
sys.path[:0] = [os.path.join(V, "lib"), V]
os.environ.setdefault("PYTHONHASHSEED", "0")


def main():
    from verif import shim, core, corpus
    shim.install()
    cases = corpus.harvest()
    ids = [c["id"] for c in cases]
    chunks = [ids[i::64] for i in range(64)]
    log = "/var/tmp/mkcorpus.log"
    res = [x for part in core.pmap("verif.corpus_work", "classify", [(c, log) for c in chunks]) for x in part]
    ok = sorted(i for i, st, _ in res if st == "ok")
    print(len(cases), "harvested;", len(ok), "executable;",
          collections.Counter(":".join(st.split(":")[:2]) for _, st, _ in res).most_common(8))
    print("slowest:", sorted(res, key=lambda r: -r[2])[:8])
    print("raw:", [(i, st) for i, st, _ in res if st.startswith("raw")][:40])
    open(os.path.join(V, "corpus_baseline.txt"), "w").write("\n".join(ok) + "\n")
    open(os.path.join(V, "corpus_times.txt"), "w").write("\n".join("%s\t%s\t%s" % r for r in sorted(res)) + "\n")


if __name__ == "__main__":
    main()
