#!/usr/bin/env python3
import sys
pid = sys.argv[1]
prop = open('/tmp/prop-%s.txt' % pid).read()
print(f"""You are helping to evaluate a verification effort for the Python project Meaningful-Data/vtlengine (an interpreter for the SDMX Validation and Transformation Language, VTL; scripts are parsed, semantically analysed, transpiled to SQL and run on DuckDB).

Your scratch copy of the repository is the git worktree /tmp/wt-{pid} . Work ONLY inside that directory (and /tmp for throw-away files). Do NOT read or modify /repo or /verif — they are out of bounds.

THE PROPERTY (this is all you are given about what should hold):
----
{prop}----

YOUR TASK: produce TWO independent, realistic source changes ("mutants") to the engine under /tmp/wt-{pid}/src/vtlengine, each of which, applied alone:
  1. breaks the property above (for at least one input / script / configuration / history / schedule in the property's scope);
  2. still imports and still passes the existing pinned test suite:  cd /tmp/wt-{pid} && /venv/bin/python -m pytest -q -p no:cacheprovider --timeout=900 --continue-on-collection-errors   (169 tests pass; many modules error at collection because the native parser is not built — that is the expected baseline, the set of passing tests must not shrink);
  3. is NOT something ordinary use would expose at once: it must need something specific to manifest — an unusual input or value class, a particular multi-step sequence, a boundary (e.g. a particular size, calendar edge, null in a particular position, a specific operand shape), a crash or fault at a particular point, a particular interleaving, or two cooperating sites that each look fine alone. Think of the kind of regression a plausible refactor or "optimisation" or off-by-one could introduce and that code review might miss. Prefer changes that also keep the wider upstream tests green (see below) — e.g. for the directory of tests most related to the code you touched.
The two mutants should have different root causes (different functions/mechanisms), not two variations of the same edit.

HOW TO RUN THE ENGINE: the compiled parser extension cannot be built in this sandbox, so use the parser stand-in:
   VERIF_REPO=/tmp/wt-{pid} PYTHONPATH=/var/tmp/vtlshim/engines/parseshim/site /venv/bin/python your_program.py
(see /var/tmp/vtlshim/README.txt). With it `from vtlengine import run, semantic_analysis, prettify, validate_dataset, generate_sdmx, run_sdmx` and `from vtlengine.API import create_ast` work against YOUR worktree's sources. Example data structures / scripts / CSVs are under /tmp/wt-{pid}/tests/*/data and the docs under /tmp/wt-{pid}/docs. The wider upstream tests can be run with e.g.
   cd /tmp/wt-{pid} && VERIF_REPO=$PWD PYTHONPATH=/var/tmp/vtlshim/engines/parseshim/site timeout 1200 /venv/bin/python -m pytest tests/<Dir> -q -p no:cacheprovider -n 4
NEVER use `git stash` (the stash is shared between worktrees and other people work in sibling worktrees): save work with `git diff > file` and restore with `git checkout -- .` / `git apply file`. Always put a `timeout` in front of long commands. There is no network. Do not install anything.

DELIVERABLES — write them into /tmp/wt-{pid}/MUTANT/ :
  m1.diff, m2.diff   : `git diff` output (relative to the worktree HEAD) of each change alone, appliable with `git apply` from the worktree root; touching only files under src/vtlengine.
  m1_demo.py, m2_demo.py : a standalone program (run with the command line above) that exits 0 and prints PASS on the UNCHANGED worktree and exits 1 and prints what went wrong when the corresponding change is applied. The demo must test the property as stated (observable API behaviour), not the internals you edited.
  notes.json : {{"m1": {{"summary": "...", "needs_to_manifest": "...", "files": [...], "ran": ["commands you ran and their outcome"]}}, "m2": {{...}}}}
Before finishing: verify for each mutant (a) demo passes without it, (b) demo fails with it, (c) the pinned 169 tests still pass with it; then leave the worktree source CLEAN (git checkout -- . ; only the MUTANT directory remains as untracked files). Your final message should be a 5-line summary of the two mutants.""")
