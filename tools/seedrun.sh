#!/bin/bash
# tools/seedrun.sh <seeded-dir-name> <check id> [more ids]
# Runs checks (quick) against a seeded mutant. The patch is applied to a scratch worktree of /repo HEAD
# (VERIF_REPO points the checks at it), so /repo itself stays untouched and other work can go on;
# evidence/replays of these runs go to a scratch dir, not to /verif/evidence.
N=$1; D=/verif/seeded/$N; shift
W=/tmp/sr-$N-$$; O=/var/tmp/sr-out-$N-$$
git -C /repo worktree add -q --detach $W HEAD || exit 2
git -C $W apply $D/patch.diff || { git -C /repo worktree remove --force $W; exit 2; }
for id in "$@"; do
  (cd /verif && VERIF_REPO=$W VERIF_OUT=$O timeout 1800 ./check $id --tier quick > $O.log 2>&1; rc=$?
   /venv/bin/python - $D/meta.json $id $rc $O.log <<'PY'
import json,sys,re
p,cid,rc,log=sys.argv[1:]
m=json.load(open(p)); keys=re.findall(r"^  key=(\S+)", open(log).read(), re.M)[:5]
runs=[r for r in (m.get("check_runs") or []) if r["check"]!=cid]+[{"check":cid,"tier":"quick","exit":int(rc),"violation_keys":keys}]
m["check_runs"]=runs; m["detected_by"]=sorted(r["check"] for r in runs if r["exit"]==1) or None
json.dump(m,open(p,"w"),indent=1)
PY
   echo "SEEDRUN $N check=$id exit=$rc violations=$(grep -c '^VIOLATION' $O.log): $(grep -A1 '^VIOLATION' $O.log | grep 'key=' | head -3 | cut -c1-220 | tr '\n' ' ')")
done
git -C /repo worktree remove --force $W; rm -rf $O $O.log
