#!/bin/bash
# tools/seedrun.sh <seeded-dir-name> <check id> [more ids]: apply a seeded mutant to /repo, run checks (quick), revert.
D=/verif/seeded/$1; shift
[ -z "$(git -C /repo status --porcelain)" ] || { echo "/repo not clean"; exit 2; }
git -C /repo apply $D/patch.diff || exit 2
trap 'git -C /repo checkout -- . ' EXIT
for id in "$@"; do
  (cd /verif && timeout 1500 ./check $id --tier quick > /var/tmp/seedrun-$$.log 2>&1; rc=$?; echo "SEEDRUN $(basename $D) check=$id exit=$rc $(grep -c '^VIOLATION' /var/tmp/seedrun-$$.log) violation lines; $(grep '^VIOLATION' /var/tmp/seedrun-$$.log | head -2 | tr '\n' ' ')")
done
rm -f /var/tmp/seedrun-$$.log
