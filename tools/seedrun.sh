#!/bin/bash
# tools/seedrun.sh <seeded-dir-name> <check id> [more ids]
# Runs checks (quick) against a seeded mutant. The patch is applied to a scratch worktree of /repo HEAD
# (VERIF_REPO points the checks at it), so /repo itself stays untouched and other work can go on;
# evidence/replays of these runs go to a scratch dir, not to /verif/evidence.
N=$1; D=/verif/seeded/$N; shift
W=/tmp/sr-$N-$$; O=/var/tmp/sr-out-$N-$$
git -C /repo worktree add -q --detach $W HEAD || exit 2
git -C $W apply $D/patch.diff || { git -C /repo worktree remove --force $W; exit 2; }
for id in "$@"; do
  (cd /verif && VERIF_REPO=$W VERIF_OUT=$O timeout 1800 ./check $id --tier quick > $O.log 2>&1; rc=$?
   echo "SEEDRUN $N check=$id exit=$rc violations=$(grep -c '^VIOLATION' $O.log): $(grep -A1 '^VIOLATION' $O.log | grep 'key=' | head -3 | cut -c1-220 | tr '\n' ' ')")
done
git -C /repo worktree remove --force $W; rm -rf $O $O.log
