#!/bin/bash
# tools/confirm_mutant.sh <PROP> <mN> [srcdir]  : confirm a sub-agent mutant in a fresh scratch worktree and file it under seeded/
# checks: demo passes on clean tree, fails with patch, pinned baseline (169) still passes with patch.
P=$1; M=$2; SRC=${3:-/tmp/wt-$P/MUTANT}
W=/tmp/cm-$P-$M-$$
git -C /repo worktree add -q --detach $W HEAD || exit 2
run_demo() { (cd $W && VERIF_REPO=$W PYTHONPATH=/var/tmp/vtlshim/engines/parseshim/site timeout 900 /venv/bin/python $SRC/${M}_demo.py > $W/.demo.out 2>&1; echo $?); }
clean=$(run_demo)
if ! git -C $W apply $SRC/$M.diff; then echo "PATCH DOES NOT APPLY"; git -C /repo worktree remove --force $W; exit 1; fi
mut=$(run_demo); tail -3 $W/.demo.out | cut -c1-300
base=skipped
if [ "$4" != "nobase" ]; then
 out=$W/.junit.xml
 (cd $W && /venv/bin/python -m pytest -q -p no:cacheprovider --timeout=900 --continue-on-collection-errors --junitxml=$out >/dev/null 2>&1)
 base=$(/venv/bin/python - $out <<'PY'
import json,sys,xml.etree.ElementTree as ET
base=set(json.load(open('/root/.vp/BASELINE.json'))['stable_pass']); passed=set()
for tc in ET.parse(sys.argv[1]).getroot().iter('testcase'):
    if not any(ch.tag in ('failure','error','skipped') for ch in tc): passed.add(tc.get('classname')+'::'+tc.get('name'))
print(len(base&passed))
PY
)
fi
echo "RESULT $P $M demo_clean_exit=$clean demo_mutant_exit=$mut baseline_pass=$base"
git -C /repo worktree remove --force $W
if [ "$clean" = "0" ] && [ "$mut" != "0" ] && { [ "$base" = "169" ] || [ "$base" = "skipped" ]; }; then
  D=/verif/seeded/$P-$M; mkdir -p $D; cp $SRC/$M.diff $D/patch.diff; cp $SRC/${M}_demo.py $D/demo.py
  /venv/bin/python - $P $M $SRC $D $clean $mut $base <<'PY'
import json,sys
P,M,SRC,D,clean,mut,base=sys.argv[1:]
try: n=json.load(open(SRC+'/notes.json')).get(M,{})
except Exception: n={}
json.dump({"property":P,"mutant":M,"summary":n.get("summary"),"needs_to_manifest":n.get("needs_to_manifest"),"files":n.get("files"),
 "confirmed":{"demo_exit_on_clean_tree":int(clean),"demo_exit_with_patch":int(mut),"pinned_tests_passing_with_patch":base,
 "how":"tools/confirm_mutant.sh: fresh scratch worktree of /repo HEAD, demo run through the parser stand-in before and after git apply, pinned pytest baseline compared with BASELINE.json stable_pass"},
 "detected_by":None}, open(D+'/meta.json','w'), indent=1)
PY
  echo "FILED $D"
else echo "NOT CONFIRMED"; fi
