#!/bin/bash
# Runs the repository's pinned baseline (guard OFF, no shim) and compares with BASELINE.json stable_pass.
unset MEANINGFUL_DATA_VTLENGINE_VERIF PYTHONPATH
out=$(mktemp /var/tmp/base.XXXXXX.xml)
cd /repo && /venv/bin/python -m pytest -ra -q -p no:cacheprovider --timeout=900 --continue-on-collection-errors --junitxml=$out > /var/tmp/base.log 2>&1
/venv/bin/python - "$out" <<'PY'
import json,sys,xml.etree.ElementTree as ET
base=set(json.load(open('/root/.vp/BASELINE.json'))['stable_pass'])
passed=set()
for tc in ET.parse(sys.argv[1]).getroot().iter('testcase'):
    if not any(ch.tag in ('failure','error','skipped') for ch in tc):
        passed.add(tc.get('classname')+'::'+tc.get('name'))
missing=sorted(base-passed)
print('baseline stable_pass:',len(base),'passed now:',len(base&passed),'missing:',missing[:10])
sys.exit(1 if missing else 0)
PY
rc=$?; rm -f $out; exit $rc
