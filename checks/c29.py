"""C29 — names that differ only in letter case stay distinct.

Metamorphic oracle: a script template is instantiated twice over the same generated data — once with two names that differ
only in letter case (Me_1 / me_1, Id_1 / ID_1, DS_1 / ds_1, res / RES, or a calc / rename / aggr target ME_1 next to Me_1) and
once with two really different names (the control).  "Treated as different objects" means exactly: the case-variant
instance behaves like the control instance - same outcome class and, after mapping the names back, the same results
(components, roles, types and every value; values are generated distinct per component so a mix-up is visible).
When the control is rejected with a VTL error the variant must be rejected with the same code.
"""
import re, warnings
from verif import core, eng, cmp

LEVEL = "exploration"

# placeholders: {D1} {D2} datasets, {I1} {I2} identifiers, {A} {B} measures, {N} new component (calc / rename / aggr target), {R1} {R2} results
TEMPLATES = [
    ("binary", "{R1} <- {D1} + {D2};"),
    ("calc", "{R1} <- {D1} [calc {N} := {A} + {B}];"),
    ("calc_overwrite", "{R1} <- {D1} [calc {A} := {B} * 2];"),
    ("filter", "{R1} <- {D1} [filter {A} > {B}];"),
    ("keep", "{R1} <- {D1} [keep {A}];"),
    ("drop", "{R1} <- {D1} [drop {B}];"),
    ("rename", "{R1} <- {D1} [rename {A} to {N}];"),
    ("membership", "{R1} <- {D1}#{A};"),
    ("agg_group", "{R1} <- sum({D1} group by {I1});"),
    ("agg_group_except", "{R1} <- max({D1} group except {I2});"),
    ("aggr_clause", "{R1} <- {D1} [aggr {N} := sum({A}) group by {I2}];"),
    ("analytic", "{R1} <- sum({D1} over (partition by {I1} order by {I2} data points between unbounded preceding and unbounded following));"),
    ("analytic_calc", "{R1} <- {D1} [calc {N} := first_value({A} over (partition by {I1} order by {I2}))];"),
    ("join", "{R1} <- inner_join({D1} as x, {D2} as y rename x#{A} to xa, y#{A} to ya, x#{B} to xb, y#{B} to yb);"),
    ("join_using", "{R1} <- inner_join({D1} as x, {D2} as y using {I1}, {I2} rename x#{A} to xa, y#{A} to ya, x#{B} to xb, y#{B} to yb);"),
    ("union", "{R1} <- union({D1}, {D2});"),
    ("two_statements", "{R2} := {D1} * 2; {R1} <- {R2} + {D1};"),
    ("chain", "{R1} <- {D1} [calc {N} := {A} - 1] [filter {N} > {B}] [keep {N}, {B}];"),
    ("sub", '{R1} <- {D1} [sub {I2} = "a"];'),
    ("exists_in", "{R1} <- exists_in({D1}, {D2}, all);"),
    ("if_ds", "{R1} <- if {D1}#{A} > 0 then {D1} else {D2};"),
    ("dp_ruleset", 'define datapoint ruleset dpr (variable {A}, {B}) is r1: {A} >= {B} errorcode "e" end datapoint ruleset; {R1} <- check_datapoint({D1}, dpr all);'),
]
BASE = {"D1": "DS_1", "D2": "DS_2", "I1": "Id_1", "I2": "Id_2", "A": "Me_1", "B": "Me_2", "N": "Me_3", "R1": "Res_1", "R2": "Res_2"}
# collision sites: (site label, placeholder pair, variant names, control names)
SITES = [
    ("input_measures", ("A", "B"), ("Me_1", "me_1"), ("Me_1", "me_1x")),
    ("input_measures_upper", ("A", "B"), ("Me_1", "ME_1"), ("Me_1", "ME_1x")),
    ("input_identifiers", ("I1", "I2"), ("Id_1", "ID_1"), ("Id_1", "ID_1x")),
    ("identifier_vs_measure", ("I2", "A"), ("Obs", "OBS"), ("Obs", "OBSx")),
    ("dataset_names", ("D1", "D2"), ("DS_1", "ds_1"), ("DS_1", "ds_1x")),
    ("result_names", ("R1", "R2"), ("Res", "RES"), ("Res", "RESx")),
    ("result_vs_input", ("R1", "D1"), ("DS_1", "ds_1"), ("DS_1", "ds_1x")),
    ("new_component", ("A", "N"), ("Me_1", "ME_1"), ("Me_1", "ME_1x")),
    ("none", None, None, None),
]


def instantiate(tpl, names):
    out = tpl
    for k, v in names.items():
        out = out.replace("{%s}" % k, v)
    return out


def build(case, which):
    """-> (script, structures, datapoints, name map back to base names)"""
    tname, tpl = case["template"]
    site, pair, variant, control = case["site"]
    names = dict(BASE)
    if pair:
        a, b = pair
        names[a], names[b] = variant if which == "variant" else control
        if which == "variant":
            pass
    used = set(re.findall(r"\{(\w+)\}", tpl))
    script = instantiate(tpl, names)
    comps = lambda: [eng.comp(names["I1"], "Integer", "I"), eng.comp(names["I2"], "String", "I"), eng.comp(names["A"], "Number"), eng.comp(names["B"], "Number")]
    dss, dps = [], {}
    for d in ("D1", "D2"):
        if d in used or (pair and d in pair):
            c = comps()
            if d == "D2" and case.get("reverse_d2"):
                c = c[:2] + c[2:][::-1]    # same measures declared in the other order
            rows = [{names["I1"]: r["I1"], names["I2"]: r["I2"], names["A"]: r["A"], names["B"]: r["B"]} for r in case["rows"][d]]
            dss.append(eng.structure(names[d], c)); dps[names[d]] = eng.frame(c, rows)
    back = {v: BASE[k] for k, v in names.items()}
    return script, eng.structures(*dss), dps, back


def outcome(script, S, dps, back):
    from vtlengine import run
    from vtlengine.Exceptions import VTLEngineException
    try:
        res = run(script=script, data_structures=S, datapoints=dps, return_only_persistent=False)
    except VTLEngineException as e:
        return ("vtl", e.args[1] if len(e.args) > 1 else type(e).__name__, str(e)[:200])
    except Exception as e:  # noqa
        return ("raw", type(e).__name__, str(e)[:200])
    canon = cmp.canon_results(res)
    out = {}
    for name, r in canon.items():
        r = dict(r)
        if r.get("kind") == "dataset":
            cols = [back.get(c, c) for c in r["columns"]]
            order = sorted(range(len(cols)), key=lambda i: cols[i])
            r["columns"] = [cols[i] for i in order]
            r["components"] = sorted([(back.get(c[0], c[0]),) + tuple(c[1:]) for c in r["components"]])
            r["rows"] = sorted([[row[i] for i in order] for row in r["rows"]], key=repr)
        out[back.get(name, name)] = r
    return ("ok", out, None)


def applicable(tpl, site):
    if site[1] is None:
        return True
    used = set(re.findall(r"\{(\w+)\}", tpl))
    a, b = site[1]
    if site[0] in ("input_measures", "input_measures_upper", "input_identifiers", "identifier_vs_measure"):
        return True   # both names are components of every input structure
    if site[0] == "dataset_names":
        return "D2" in used
    return a in used and b in used


def case_strategy():
    from hypothesis import strategies as st

    @st.composite
    def gen(draw):
        template = draw(st.sampled_from(TEMPLATES))
        site = draw(st.sampled_from([s for s in SITES if applicable(template[1], s)]))
        rows = {}
        for d, base in (("D1", 0), ("D2", 100)):
            keys = draw(st.lists(st.tuples(st.sampled_from([1, 2, 3]), st.sampled_from(["a", "b"])), min_size=1, max_size=5, unique=True))
            # values distinct per (dataset, component, row): A in 1.., B in 50.. so that a swap of columns is visible
            rows[d] = [{"I1": a, "I2": b, "A": float(base + 1 + i), "B": float(base + 50 + 2 * i)} for i, (a, b) in enumerate(keys)]
        return dict(template=template, site=site, rows=rows, reverse_d2=draw(st.booleans()))
    return gen()


GROUP = {"input_measures": "input_components", "input_measures_upper": "input_components", "input_identifiers": "input_components", "identifier_vs_measure": "input_components",
         "dataset_names": "dataset_names", "result_names": "dataset_names", "result_vs_input": "dataset_names", "new_component": "new_component"}


def sa_outcome(script, S, dps, back):
    """semantic_analysis outcome with names mapped back: ('ok', {result: sorted components}) | ('vtl', code) | ('raw', type)"""
    from vtlengine import semantic_analysis
    from vtlengine.Exceptions import VTLEngineException
    try:
        res = semantic_analysis(script=script, data_structures=S)
    except VTLEngineException as e:
        return ("vtl", e.args[1] if len(e.args) > 1 else type(e).__name__, str(e)[:160])
    except Exception as e:  # noqa
        return ("raw", type(e).__name__, str(e)[:160])
    out = {}
    for name, r in res.items():
        comps = getattr(r, "components", None)
        out[back.get(name, name)] = sorted((back.get(n, n), c.role.name, c.data_type.__name__) for n, c in comps.items()) if comps is not None else str(getattr(r, "data_type", ""))
    return ("ok", out, None)


def run_case(case):
    site = GROUP.get(case["site"][0], case["site"][0])
    if case["site"][1]:
        sc, sv = sa_outcome(*build(case, "control")), sa_outcome(*build(case, "variant"))
        if sc[0] == "ok" and sv[:2] != sc[:2]:
            facts0 = dict(script=build(case, "variant")[0], site=case["site"][0], template=case["template"][0], control="ok", variant=sv[0])
            return [("semantic:%s:%s:%s" % (site, sv[0], sv[1] if sv[0] != "ok" else "structure_differs"),
                     "semantic_analysis with names differing only in case: %s; with really different names: %s" % (str(sv[:3])[:250], str(sc[1])[:200]))], facts0
    ctrl = outcome(*build(case, "control")) if case["site"][1] else None
    var = outcome(*build(case, "variant"))
    script = build(case, "variant")[0]
    facts = dict(script=script, site=case["site"][0], template=case["template"][0], control=ctrl[0] if ctrl else "n/a", variant=var[0])
    if ctrl is None:
        if var[0] == "raw":
            return [("control_raw:%s:%s" % (case["template"][0], var[1]), "template without any case collision raises %s: %s" % (var[1], var[2]))], facts
        return [], facts
    if ctrl[0] == "raw":
        facts["skipped"] = "control_raw"
        return [], facts      # the template itself hits an unrelated defect: not evidence about letter case
    if ctrl[0] == "vtl":
        if var[0] == "vtl" and var[1] == ctrl[1]:
            return [], facts
        return [("%s:control_rejected_%s:variant_%s" % (site, ctrl[1], var[0] if var[0] != "vtl" else var[1]), "control rejected with %s, case variant: %r" % (ctrl[1], var[:2] if var[0] != "ok" else "accepted"))], facts
    if var[0] != "ok":
        return [("%s:%s:%s:%s" % (site, var[0], var[1], case["template"][0] if site == "new_component" else "*"), "names differing only in case: %s %s (%s); with really different names the script runs" % (var[0], var[1], var[2]))], facts
    d = cmp.diff_results(ctrl[1], var[1]) if hasattr(cmp, "diff_results") else (None if ctrl[1] == var[1] else "results differ")
    if ctrl[1] != var[1]:
        return [("%s:result_differs:%s" % (site, case["template"][0]), "result with case-variant names differs from the control: %s" % (str(d)[:300] if d else "structure differs"))], facts
    return [], facts


def work(seed, n):
    warnings.filterwarnings("ignore")
    import hypothesis
    from hypothesis import given, settings, HealthCheck
    part = core.Part()

    @settings(max_examples=n, database=None, deadline=None, suppress_health_check=list(HealthCheck), phases=[hypothesis.Phase.generate])
    @hypothesis.seed(seed)
    @given(case_strategy())
    def prop(case):
        fails, facts = run_case(case)
        nt = case["site"][1] is not None and facts["control"] == "ok"
        part.case(core.fingerprint([facts["script"], case["rows"]]), nt, sample=dict(script=facts["script"], site=facts["site"], control=facts["control"], variant=facts["variant"]) if nt and len(part.samples) < 3 else None,
                  labels=["site=" + facts["site"], "template=" + facts["template"], "control=" + facts["control"], "variant=" + facts["variant"]])
        for key, what in fails:
            part.fail(key, dict(script=facts["script"], case=dict(template=list(case["template"]), site=[case["site"][0], list(case["site"][1] or []), list(case["site"][2] or []), list(case["site"][3] or [])], rows=case["rows"], reverse_d2=case.get("reverse_d2", False))), what)
    prop()
    return part


def run(ctx):
    ctx.rule = ("cases: (script template of 22 operator contexts, collision site of 8 kinds, generated data); each evaluated with case-variant names and with really different names (control); "
                "non-trivial = a collision site is applied and the control instance runs; distinct by (script, data)")
    n = 40 if ctx.quick else 1500
    ctx.merge(core.pmap("checks.c29", "work", [(ctx.seed * 1009 + k, n) for k in range(16)], procs=16))
    ctx.assumptions = ["the control instance (same template, names that differ in more than case) defines the expected behaviour; templates whose control instance raises a raw error are skipped and counted"]


def replay(ctx, path):
    import json
    warnings.filterwarnings("ignore")
    d = json.load(open(path))
    c = d["case"]["case"]
    site = c["site"]
    case = dict(template=tuple(c["template"]), site=(site[0], tuple(site[1]) or None, tuple(site[2]) or None, tuple(site[3]) or None), rows=c["rows"], reverse_d2=c.get("reverse_d2", False))
    fails, facts = run_case(case)
    print("replay:", facts); print("failures:", fails)
    return 1 if fails else 0
