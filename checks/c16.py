"""C16 — run() releases its session resources at every failure point (fault enumeration).

For each script (generated multi-statement scripts, CSV and DataFrame inputs, with / without output folder, in-memory and
file-backed database) a dry run through a counting connection proxy numbers the K calls made on the DuckDB connection - starting
at duckdb.connect itself, so that connect, the SET batch, UDF registration and the decimal configuration are fault points too.
The run is then repeated K times with a fault injected BEFORE call k (k = 1..K; exhaustive).  Also real faults: malformed input
j, unwritable output folder, every documented engine knob set to an invalid value.
Oracle after each failing run: the call raised; the private VTL_TEMP_DIRECTORY holds no duckdb_tmp_* directory and no *.duckdb
file; the real connection is closed; no open file descriptor points into the temp directory; a following good run in the same
process returns exactly the reference result.  Sequences: up to 3 failing runs followed by a good one (Hypothesis stateful machine).
"""
import contextlib, os, shutil, tempfile, warnings
from verif import core, eng, cmp

LEVEL = "fault_enumeration"


class Injected(Exception):
    pass


class FaultConn:
    def __init__(self, real, ctl):
        object.__setattr__(self, "_real", real)
        object.__setattr__(self, "_ctl", ctl)

    def __getattr__(self, name):
        attr = getattr(self._real, name)
        if not callable(attr) or name in ("close",):
            return attr
        ctl = self._ctl

        def call(*a, **k):
            ctl.tick("conn.%s" % name)
            r = attr(*a, **k)
            return self if r is self._real else r
        return call


class Control:
    def __init__(self, fault_at=None, exc=None):
        self.n = 0
        self.fault_at = fault_at
        self.exc = exc
        self.calls = []
        self.reals = []

    def tick(self, what):
        self.n += 1
        self.calls.append(what)
        if self.fault_at is not None and self.n == self.fault_at:
            raise self.exc("injected fault before call %d (%s)" % (self.n, what))


@contextlib.contextmanager
def instrumented(ctl):
    import vtlengine.duckdb_transpiler.Config.config as cfg
    real_duckdb = cfg.duckdb

    class Shim:
        def __getattr__(self, n):
            return getattr(real_duckdb, n)

        def connect(self, *a, **k):
            ctl.tick("duckdb.connect")
            c = real_duckdb.connect(*a, **k)
            ctl.reals.append(c)
            return FaultConn(c, ctl)
    cfg.duckdb = Shim()
    try:
        yield
    finally:
        cfg.duckdb = real_duckdb


def leftovers(tmpdir, ctl):
    """-> list of resource problems after a run"""
    probs = []
    for root, dirs, files in os.walk(tmpdir):
        for d in dirs:
            if d.startswith("duckdb_tmp_"):
                probs.append("session directory left: %s" % d)
        for f in files:
            if f.endswith(".duckdb") or f.endswith(".duckdb.wal"):
                probs.append("database file left: %s" % f)
    for c in ctl.reals:
        try:
            c.execute("SELECT 1").fetchall()
            probs.append("database connection still open")
            c.close()
        except Exception:
            pass
    try:
        for fd in os.listdir("/proc/self/fd"):
            try:
                t = os.readlink("/proc/self/fd/" + fd)
            except OSError:
                continue
            if t.startswith(tmpdir):
                probs.append("open file descriptor into the temp directory: %s" % t[len(tmpdir):])
    except OSError:
        pass
    return probs


SCRIPTS = [
    "A := DS_1 + DS_2; B <- A * 2; C := DS_1 [filter Me_1 > 0]; D <- C + A;",
    "R <- DS_1;",
    "X := union(DS_1, DS_2); Y <- sum(X group by Id_1); sc <- max(DS_1#Me_1);",
    "J <- inner_join(DS_1 as a, DS_2 as b rename a#Me_1 to m1, b#Me_1 to m2); K := DS_2 [calc z := Me_1 * 3]; L <- K [keep z];",
]


def make_inputs(form, tmp):
    comps = [eng.comp("Id_1", "Integer", "I"), eng.comp("Me_1", "Number")]
    S = eng.structures(*[eng.structure("DS_%d" % i, comps) for i in (1, 2)])
    rows = {1: [(1, 1.5), (2, -2.0), (3, None)], 2: [(1, 3.0), (2, 4.0), (5, 6.0)]}
    dps = {}
    for i in (1, 2):
        if form == "csv":
            import pathlib
            p = os.path.join(tmp, "DS_%d.csv" % i)
            with open(p, "w") as f:
                f.write("Id_1,Me_1\n" + "".join("%s,%s\n" % (a, "" if b is None else b) for a, b in rows[i]))
            dps["DS_%d" % i] = pathlib.Path(p)
        else:
            dps["DS_%d" % i] = eng.frame(comps, [{"Id_1": a, "Me_1": b} for a, b in rows[i]])
    return S, dps


def one_run(script, form, out, inmem, work, fault_at=None, exc=None, env_extra=None, dps_override=None):
    """-> (outcome, canon results or error text, leftovers, number of connection calls, call names)"""
    from vtlengine import run
    tmp = tempfile.mkdtemp(prefix="t_", dir=work)
    inp = tempfile.mkdtemp(prefix="i_", dir=work)
    old = {k: os.environ.get(k) for k in ["VTL_TEMP_DIRECTORY", "VTL_USE_IN_MEMORY_DB"] + list(env_extra or {})}
    os.environ["VTL_TEMP_DIRECTORY"] = tmp
    os.environ["VTL_USE_IN_MEMORY_DB"] = "1" if inmem else "0"
    for k, v in (env_extra or {}).items():
        os.environ[k] = v
    ctl = Control(fault_at, exc)
    S, dps = make_inputs(form, inp)
    if dps_override:
        dps.update(dps_override(inp))
    kw = dict(script=script, data_structures=S, datapoints=dps, return_only_persistent=False)
    if out:
        kw.update(output_folder=out if isinstance(out, str) else os.path.join(inp, "out"), output_format="csv")
    try:
        with instrumented(ctl):
            try:
                res = run(**kw)
                outcome, val = "ok", cmp.canon_results(res)
            except Injected as e:
                outcome, val = "raised_injected", str(e)
            except Exception as e:  # noqa
                outcome, val = "raised", "%s: %s" % (type(e).__name__, str(e)[:150])
        left = leftovers(tmp, ctl)
    finally:
        for k, v in old.items():
            if v is None:
                os.environ.pop(k, None)
            else:
                os.environ[k] = v
        shutil.rmtree(tmp, ignore_errors=True); shutil.rmtree(inp, ignore_errors=True)
    return outcome, val, left, ctl.n, ctl.calls


def exc_classes():
    import duckdb
    return [("IOException", lambda m: duckdb.IOException(m)), ("OutOfMemoryException", lambda m: duckdb.OutOfMemoryException(m)), ("OSError", lambda m: OSError(m)), ("Injected", lambda m: Injected(m))]


def work_enumerate(si, form, out, inmem, ei):
    warnings.filterwarnings("ignore")
    part = core.Part()
    work = tempfile.mkdtemp(prefix="c16_", dir=os.environ.get("VERIF_TMP", "/var/tmp"))
    try:
        script = SCRIPTS[si]
        ename, emk = exc_classes()[ei]
        conf = dict(script=script, form=form, output_folder=bool(out), in_memory=inmem, fault=ename)
        o, ref, left, K, calls = one_run(script, form, out, inmem, work)
        if o != "ok":
            part.fail("dry_run_failed", conf, str(ref)); return part
        if left:
            part.fail("leak_after_success:%s" % left[0].split(":")[0], conf, "; ".join(left)); return part
        part.hist["fault_points"] += K
        for k in range(1, K + 1):
            class E(Exception):
                pass
            o, val, left, n, _ = one_run(script, form, out, inmem, work, fault_at=k, exc=emk)
            case = dict(conf, fault_before_call=k, call=calls[k - 1], total_calls=K)
            part.case("%d:%s:%s:%s:%s:%d" % (si, form, bool(out), inmem, ename, k), k > 3, sample=case if len(part.samples) < 3 else None, labels=["fault_point", "fault=" + ename, "form=" + form, "inmem=%s" % inmem, "out=%s" % bool(out)])
            stage = calls[k - 1] if k <= 8 else "conn.execute@run"
            if o == "ok":
                # a fault the engine deliberately tolerates (e.g. optional UDF registration) is acceptable only if the run is still correct
                part.hist["fault_tolerated:%s" % stage] += 1
                d = cmp.diff_results(ref, val)
                if d:
                    part.fail("fault_swallowed_with_wrong_result:%s" % stage, case, "run() returned normally although call %d (%s) failed, and the result differs: %s" % (k, calls[k - 1], d))
            if left:
                part.fail("leak:%s:%s" % (left[0].split(":")[0].replace(" ", "_"), stage), case, "after a fault before call %d (%s): %s" % (k, calls[k - 1], "; ".join(left)))
            # a following good run behaves as if the failed run never happened
            if k % 5 == 1:
                o2, val2, left2, _, _ = one_run(script, form, out, inmem, work)
                if o2 != "ok" or cmp.diff_results(ref, val2):
                    part.fail("next_run_affected:%s" % stage, case, "good run after the failed one: %s %s" % (o2, val2 if o2 != "ok" else cmp.diff_results(ref, val2)))
    finally:
        shutil.rmtree(work, ignore_errors=True)
    return part


BAD_ENV = [("VTL_THREADS", "0"), ("VTL_THREADS", "abc"), ("VTL_MEMORY_LIMIT", "banana"), ("OUTPUT_NUMBER_SIGNIFICANT_DIGITS", "5"), ("VTL_DUCKDB_DECIMAL_WIDTH", "99"), ("VTL_MAX_TEMP_DIRECTORY_SIZE", "lots")]


def work_real_faults():
    warnings.filterwarnings("ignore")
    import pathlib
    part = core.Part()
    work = tempfile.mkdtemp(prefix="c16r_", dir=os.environ.get("VERIF_TMP", "/var/tmp"))
    try:
        script = SCRIPTS[0]
        _, ref, _, _, _ = one_run(script, "csv", False, True, work)
        for inmem in (True, False):
            for var, val in BAD_ENV:
                o, v, left, n, _ = one_run(script, "df", False, inmem, work, env_extra={var: val})
                case = dict(kind="invalid_setting", variable=var, value=val, in_memory=inmem)
                part.case("env:%s:%s:%s" % (var, val, inmem), True, sample=case if len(part.samples) < 2 else None, labels=["real_fault:invalid_setting"])
                if o == "ok":
                    part.hist["setting_accepted:%s=%s" % (var, val)] += 1
                if left:
                    part.fail("leak:%s:invalid_setting:%s" % (left[0].split(":")[0].replace(" ", "_"), var), case, "; ".join(left))
                o2, v2, _, _, _ = one_run(script, "csv", False, True, work)
                if o2 != "ok" or cmp.diff_results(ref, v2):
                    part.fail("next_run_affected:invalid_setting:%s" % var, case, "good run after invalid %s=%s: %s" % (var, val, v2 if o2 != "ok" else cmp.diff_results(ref, v2)))
            for j in (1, 2):
                def bad_csv(inp, j=j):
                    p = os.path.join(inp, "bad_%d.csv" % j)
                    open(p, "w").write("Id_1,Me_1\n1,notanumber\n1,2\n")
                    return {"DS_%d" % j: pathlib.Path(p)}
                o, v, left, n, _ = one_run(script, "csv", True, inmem, work, dps_override=bad_csv)
                case = dict(kind="malformed_input", dataset="DS_%d" % j, in_memory=inmem)
                part.case("badcsv:%d:%s" % (j, inmem), True, labels=["real_fault:malformed_input"])
                if o == "ok":
                    part.fail("malformed_input_accepted", case, "run() accepted a malformed CSV")
                if left:
                    part.fail("leak:%s:malformed_input" % left[0].split(":")[0].replace(" ", "_"), case, "; ".join(left))
            blocker = os.path.join(work, "blocker_%s" % inmem)
            open(blocker, "w").write("x")
            o, v, left, n, _ = one_run(script, "df", os.path.join(blocker, "sub"), inmem, work)
            case = dict(kind="unwritable_output_folder", in_memory=inmem)
            part.case("outfolder:%s" % inmem, True, labels=["real_fault:unwritable_output_folder"])
            if o == "ok":
                part.fail("unwritable_output_accepted", case, "run() succeeded with an output folder below a regular file")
            if left:
                part.fail("leak:%s:unwritable_output_folder" % left[0].split(":")[0].replace(" ", "_"), case, "; ".join(left))
    finally:
        shutil.rmtree(work, ignore_errors=True)
    return part


def work_sequences(seed, n):
    """Stateful: up to 3 failing runs (random fault points / kinds / configurations) then a good run, invariant after every step."""
    warnings.filterwarnings("ignore")
    import hypothesis
    from hypothesis import settings, HealthCheck, strategies as st
    from hypothesis.stateful import RuleBasedStateMachine, rule, invariant, run_state_machine_as_test
    part = core.Part()
    work = tempfile.mkdtemp(prefix="c16s_", dir=os.environ.get("VERIF_TMP", "/var/tmp"))
    refs = {}

    class Machine(RuleBasedStateMachine):
        def __init__(self):
            super().__init__()
            self.failed = 0
            self.steps = []

        @rule(si=st.integers(0, len(SCRIPTS) - 1), form=st.sampled_from(["csv", "df"]), out=st.booleans(), inmem=st.booleans(), k=st.integers(1, 30), ei=st.integers(0, 3))
        def failing_run(self, si, form, out, inmem, k, ei):
            if self.failed >= 3:
                return
            o, v, left, n, calls = one_run(SCRIPTS[si], form, out, inmem, work, fault_at=k, exc=exc_classes()[ei][1])
            self.steps.append(("fail", si, form, out, inmem, k, exc_classes()[ei][0], o))
            if o != "ok":
                self.failed += 1
            if left:
                part.fail("sequence:leak:%s" % left[0].split(":")[0].replace(" ", "_"), dict(steps=self.steps), "; ".join(left))

        @rule(si=st.integers(0, len(SCRIPTS) - 1), form=st.sampled_from(["csv", "df"]), inmem=st.booleans())
        def good_run(self, si, form, inmem):
            key = si
            o, v, left, n, _ = one_run(SCRIPTS[si], form, False, inmem, work)
            self.steps.append(("good", si, form, inmem, o))
            part.case(core.fingerprint(self.steps), self.failed > 0, sample=dict(steps=list(self.steps)) if self.failed and len(part.samples) < 2 else None, labels=["sequence", "failed_before=%d" % self.failed])
            if o != "ok":
                part.fail("sequence:good_run_fails_after_failures", dict(steps=self.steps), str(v)); return
            if key not in refs:
                refs[key] = v
            elif cmp.diff_results(refs[key], v):
                part.fail("sequence:good_run_result_differs", dict(steps=self.steps), cmp.diff_results(refs[key], v))
            if left:
                part.fail("sequence:leak_after_good_run", dict(steps=self.steps), "; ".join(left))
            self.failed = 0

    try:
        run_state_machine_as_test(hypothesis.seed(seed)(Machine), settings=settings(max_examples=n, stateful_step_count=6, database=None, deadline=None, suppress_health_check=list(HealthCheck), phases=[hypothesis.Phase.generate]))
    finally:
        shutil.rmtree(work, ignore_errors=True)
    return part


def _dispatch(fname, args):
    return globals()[fname](*args)


def run(ctx):
    ctx.rule = ("every connection call of every (script, input form, output folder, storage mode) configuration is a fault point, numbered from duckdb.connect; a fault (duckdb.IOException / OutOfMemoryException / OSError / custom) "
                "is injected before call k for ALL k = 1..K; plus real faults (malformed CSV per input, unwritable output folder, 6 invalid engine settings x 2 storage modes) and Hypothesis stateful sequences of <=3 failing runs then a "
                "good run; non-trivial = fault point beyond the connection set-up (k > 3), real faults, sequences with a failure before the good run")
    os.environ["VERIF_TMP"] = ctx.workdir
    ctx.exhaustive = True
    combos = []
    q = ctx.quick
    for si in range(len(SCRIPTS)):
        for form in ("csv", "df"):
            for out in (False, True):
                for inmem in (True, False):
                    for ei in range(4):
                        combos.append((si, form, out, inmem, ei))
    if q:
        combos = [c for i, c in enumerate(combos) if (i + ctx.seed) % 9 == 0 or (c[0] == 0 and c[4] == 0)]
    jobs = [("work_enumerate", c) for c in combos] + [("work_real_faults", ())] + [("work_sequences", (ctx.seed * 1009 + k, 6 if q else 60)) for k in range(2)]
    ctx.merge(core.pmap("checks.c16", "_dispatch", jobs, procs=16))
    ctx.extra["fault_points_enumerated"] = int(ctx.part.hist.get("fault_points", 0))
    ctx.assumptions = ["faults are injected at the Python boundary of the DuckDB connection object (and at duckdb.connect); faults inside DuckDB's native code or the operating system are not simulated",
                       "the temp directory is private to each run, so anything found in it afterwards was left by that run"]


def replay(ctx, path):
    import json
    os.environ["VERIF_TMP"] = ctx.workdir
    c = json.load(open(path))["case"]
    if "fault_before_call" in c:
        si = SCRIPTS.index(c["script"]); ei = [n for n, _ in exc_classes()].index(c["fault"])
        p = work_enumerate(si, c["form"], c["output_folder"], c["in_memory"], ei)
    else:
        p = work_real_faults()
    print("replay failures:", {k: v[2] for k, v in p.failures.items()})
    return 1 if p.failures else 0
