"""C32 — execution failures surface as VTL errors, never as raw engine errors.

Domain: (a) Hypothesis-generated scripts over a typed operator catalogue (every scalar operator of the grammar with
component and literal operands, dataset-level operators, aggregations, analytics, time operators, validation operators)
over data drawn from hazard pools (zero divisors, negative log/sqrt arguments, overflowing integers and doubles, invalid
regular expressions, out-of-range substr/instr arguments, unparsable cast sources, extreme dates and periods), under all
four time_period_output_formats; (b) every executable corpus case under all four output formats.
Precondition enforced by the harness: semantic_analysis() passes on the script and validate_dataset() passes on every input.
Oracle: outcome in {results, VTLEngineException subclass whose code is in the message catalogue}.
Anything else escaping run() is a violation, bucketed by (exception type, normalised message head).
"""
import json, os, re, warnings
from verif import core, eng

LEVEL = "exploration"

FORMATS = ["vtl", "sdmx_reporting", "sdmx_gregorian", "natural"]

POOLS = {
    "Integer": [0, 1, -1, 2, 3, -5, 63, 64, 400, 1000000, 3037000500, 4611686018427387904, -4611686018427387904, None],
    "Number": [0.0, 1.5, -2.5, 0.1, 710.0, -710.0, 1e15, 1e154, 1e308, -1e308, 1e-320, 123456789.123456789, -1e-9, 2.0, None],
    "String": ["", "abc", "(", "[a-", "a{2", "\\", "%", "_", "'", "''", '"', "x" * 300, "it's", "12'", "2020-01-01", "2020Q1", "2020-13-45", "12", "1.5", "-0", "true", "NaN", "inf", "1e999", " ", "ü€", "99999999999999999999", "A", None],
    "Boolean": [True, False, None],
    "Date": ["1800-01-01", "9999-12-31", "2020-02-29", "2020-12-31", "2021-01-03", "2020-01-15 10:30:00", "2000-01-01", None],
    "Time_Period": ["2020", "2020S2", "2020Q4", "2020M12", "2020W53", "2020D366", "9999M12", "2021W1", "1900Q1", "2020M1", None],
    "Duration": ["A", "S", "Q", "M", "W", "D", None],
}
LITS = {
    "Integer": ["0", "1", "-1", "2", "63", "400", "-5", "9223372036854775807", "100000"],
    "Number": ["0.0", "1.5", "-2.5", "0.1", "710.0", "99999999999999999999.0", "0.000000001", "100.0"],
    "String": ['""', '"abc"', '"("', '"[a-"', '"a{2"', '"\\"', '"%"', '"2020-01-01"', '"2020Q1"', '"12"', '"x.y"', '"YYYY-MM-DD"', '"true"'],
    "Boolean": ["true", "false"],
    "Date": ['cast("2020-02-29", date)', 'cast("9999-12-31", date)', 'cast("1800-01-01", date)'],
    "Time_Period": ['cast("2020Q4", time_period)', 'cast("2020D366", time_period)', 'cast("2020W53", time_period)', 'cast("9999M12", time_period)'],
    "Duration": ['"A"', '"M"', '"D"', '"W"'],
}
COMP = {"Integer": "Me_i", "Number": "Me_n", "String": "Me_s", "Boolean": "Me_b", "Date": "Me_d", "Time_Period": "Me_p", "Duration": "Me_u"}

# (name, result type, template, operand types).  {0}, {1}... operands; literal-only operands marked with "=Type"
SCALAR = [
    ("+", "Number", "({0} + {1})", ["Number", "Number"]), ("-", "Number", "({0} - {1})", ["Number", "Number"]), ("*", "Number", "({0} * {1})", ["Number", "Number"]), ("/", "Number", "({0} / {1})", ["Number", "Number"]),
    ("+i", "Integer", "({0} + {1})", ["Integer", "Integer"]), ("-i", "Integer", "({0} - {1})", ["Integer", "Integer"]), ("*i", "Integer", "({0} * {1})", ["Integer", "Integer"]), ("/i", "Number", "({0} / {1})", ["Integer", "Integer"]),
    ("neg_i", "Integer", "(- {0})", ["Integer"]), ("neg_n", "Number", "(- {0})", ["Number"]),
    ("mod", "Number", "mod({0}, {1})", ["Number", "Number"]), ("mod_i", "Integer", "mod({0}, {1})", ["Integer", "Integer"]),
    ("power", "Number", "power({0}, {1})", ["Number", "Number"]), ("power_i", "Number", "power({0}, {1})", ["Integer", "Integer"]),
    ("log", "Number", "log({0}, {1})", ["Number", "Number"]), ("log_i", "Number", "log({0}, {1})", ["Number", "Integer"]), ("ln", "Number", "ln({0})", ["Number"]), ("ln_i", "Number", "ln({0})", ["Integer"]),
    ("exp", "Number", "exp({0})", ["Number"]), ("exp_i", "Number", "exp({0})", ["Integer"]), ("sqrt", "Number", "sqrt({0})", ["Number"]), ("sqrt_i", "Number", "sqrt({0})", ["Integer"]),
    ("round", "Number", "round({0}, {1})", ["Number", "Integer"]), ("round0", "Integer", "round({0})", ["Number"]), ("trunc", "Number", "trunc({0}, {1})", ["Number", "Integer"]), ("trunc0", "Integer", "trunc({0})", ["Number"]),
    ("ceil", "Integer", "ceil({0})", ["Number"]), ("floor", "Integer", "floor({0})", ["Number"]), ("abs", "Number", "abs({0})", ["Number"]), ("abs_i", "Integer", "abs({0})", ["Integer"]),
    ("random", "Number", "random({0}, {1})", ["Integer", "=Integer"]),
    ("||", "String", "({0} || {1})", ["String", "String"]), ("trim", "String", "trim({0})", ["String"]), ("upper", "String", "upper({0})", ["String"]), ("lower", "String", "lower({0})", ["String"]),
    ("rtrim", "String", "rtrim({0})", ["String"]), ("ltrim", "String", "ltrim({0})", ["String"]),
    ("substr", "String", "substr({0}, {1}, {2})", ["String", "Integer", "Integer"]), ("substr2", "String", "substr({0}, {1})", ["String", "Integer"]),
    ("replace", "String", "replace({0}, {1}, {2})", ["String", "String", "String"]), ("replace2", "String", "replace({0}, {1})", ["String", "String"]),
    ("instr", "Integer", "instr({0}, {1}, {2}, {3})", ["String", "String", "Integer", "Integer"]), ("instr2", "Integer", "instr({0}, {1})", ["String", "String"]),
    ("length", "Integer", "length({0})", ["String"]),
    ("levenshtein", "Integer", "string_distance(levenshtein, {0}, {1})", ["String", "String"]), ("damerau", "Integer", "string_distance(damerau_levenshtein, {0}, {1})", ["String", "String"]),
    ("hamming", "Integer", "string_distance(hamming, {0}, {1})", ["String", "String"]), ("jaro", "Number", "string_distance(jaro_winkler, {0}, {1})", ["String", "String"]),
    ("match", "Boolean", "match_characters({0}, {1})", ["String", "String"]),
    ("=n", "Boolean", "({0} = {1})", ["Number", "Number"]), ("<n", "Boolean", "({0} < {1})", ["Number", "Integer"]), (">=s", "Boolean", "({0} >= {1})", ["String", "String"]), ("<>b", "Boolean", "({0} <> {1})", ["Boolean", "Boolean"]),
    ("<d", "Boolean", "({0} < {1})", ["Date", "Date"]), ("<p", "Boolean", "({0} < {1})", ["Time_Period", "Time_Period"]), ("=p", "Boolean", "({0} = {1})", ["Time_Period", "Time_Period"]), ("=u", "Boolean", "({0} = {1})", ["Duration", "Duration"]), ("<u", "Boolean", "({0} < {1})", ["Duration", "Duration"]),
    ("between", "Boolean", "between({0}, {1}, {2})", ["Number", "Number", "Number"]), ("between_s", "Boolean", "between({0}, {1}, {2})", ["String", "String", "String"]), ("between_d", "Boolean", "between({0}, {1}, {2})", ["Date", "Date", "Date"]),
    ("in_i", "Boolean", "({0} in {{0, 1, 9223372036854775807}})", ["Integer"]), ("not_in_s", "Boolean", '({0} not_in {{"", "abc", "("}})', ["String"]),
    ("isnull", "Boolean", "isnull({0})", ["Number"]), ("and", "Boolean", "({0} and {1})", ["Boolean", "Boolean"]), ("or", "Boolean", "({0} or {1})", ["Boolean", "Boolean"]), ("xor", "Boolean", "({0} xor {1})", ["Boolean", "Boolean"]), ("not", "Boolean", "(not {0})", ["Boolean"]),
    ("cast_s_i", "Integer", "cast({0}, integer)", ["String"]), ("cast_s_n", "Number", "cast({0}, number)", ["String"]), ("cast_s_b", "Boolean", "cast({0}, boolean)", ["String"]), ("cast_s_d", "Date", "cast({0}, date)", ["String"]),
    ("cast_s_p", "Time_Period", "cast({0}, time_period)", ["String"]), ("cast_s_u", "Duration", "cast({0}, duration)", ["String"]),
    ("cast_n_i", "Integer", "cast({0}, integer)", ["Number"]), ("cast_n_s", "String", "cast({0}, string)", ["Number"]), ("cast_i_s", "String", "cast({0}, string)", ["Integer"]), ("cast_i_n", "Number", "cast({0}, number)", ["Integer"]),
    ("cast_n_b", "Boolean", "cast({0}, boolean)", ["Number"]), ("cast_i_b", "Boolean", "cast({0}, boolean)", ["Integer"]), ("cast_b_i", "Integer", "cast({0}, integer)", ["Boolean"]), ("cast_b_n", "Number", "cast({0}, number)", ["Boolean"]), ("cast_b_s", "String", "cast({0}, string)", ["Boolean"]),
    ("cast_d_s", "String", "cast({0}, string)", ["Date"]), ("cast_d_p", "Time_Period", "cast({0}, time_period)", ["Date"]), ("cast_p_s", "String", "cast({0}, string)", ["Time_Period"]), ("cast_p_d", "Date", "cast({0}, date)", ["Time_Period"]),
    ("cast_u_s", "String", "cast({0}, string)", ["Duration"]),
    ("period_indicator", "Duration", "period_indicator({0})", ["Time_Period"]),
    ("time_agg_p", "Time_Period", "time_agg({1}, {0})", ["^Time_Period", "=Duration"]), ("time_agg_d", "Date", "time_agg({1}, {0}, first)", ["^Date", "=Duration"]), ("time_agg_d_last", "Date", "time_agg({1}, {0}, last)", ["^Date", "=Duration"]),
    ("datediff", "Integer", "datediff({0}, {1})", ["Date", "Date"]), ("datediff_p", "Integer", "datediff({0}, {1})", ["Time_Period", "Time_Period"]),
    ("dateadd", "Date", "dateadd({0}, {1}, {2})", ["Date", "=Integer", "=Duration"]), ("dateadd_p", "Time_Period", "dateadd({0}, {1}, {2})", ["Time_Period", "=Integer", "=Duration"]),
    ("getyear", "Integer", "getyear({0})", ["Date"]), ("getmonth", "Integer", "getmonth({0})", ["Date"]), ("dayofmonth", "Integer", "dayofmonth({0})", ["Date"]), ("dayofyear", "Integer", "dayofyear({0})", ["Date"]),
    ("getyear_p", "Integer", "getyear({0})", ["Time_Period"]), ("getmonth_p", "Integer", "getmonth({0})", ["Time_Period"]), ("dayofmonth_p", "Integer", "dayofmonth({0})", ["Time_Period"]), ("dayofyear_p", "Integer", "dayofyear({0})", ["Time_Period"]),
    ("daytoyear", "Duration", "daytoyear({0})", ["Integer"]), ("daytomonth", "Duration", "daytomonth({0})", ["Integer"]), ("yeartoday", "Integer", "yeartoday({0})", ["Duration"]), ("monthtoday", "Integer", "monthtoday({0})", ["Duration"]),
    ("yeartoday_s", "Integer", "yeartoday({0})", ["String"]), ("monthtoday_s", "Integer", "monthtoday({0})", ["String"]),
    ("current_date", "Date", "current_date()", []),
]
GENERIC = [("if", "(if {c} then {0} else {1})"), ("nvl", "nvl({0}, {1})"), ("case", "(case when {c} then {0} else {1})")]
BY_RESULT = {}
for _t in SCALAR:
    BY_RESULT.setdefault(_t[1], []).append(_t)


def scalar_tree(draw, typ, depth, comps=True):
    """Typed expression tree: ("leaf", typ, text) | ("op", typ, name, template, [children]).  comps=False: literals only."""
    from hypothesis import strategies as st
    if depth <= 0 or draw(st.integers(0, 9)) < 3:
        if comps and draw(st.integers(0, 3)) > 0:
            return ("leaf", typ, COMP[typ])
        return ("leaf", typ, draw(st.sampled_from(LITS[typ])))
    if comps and draw(st.integers(0, 9)) == 0:
        name, tpl = draw(st.sampled_from(GENERIC))
        a = ("leaf", typ, COMP[typ]) if name == "nvl" else scalar_tree(draw, typ, depth - 1)
        kids = [a, scalar_tree(draw, typ, depth - 1)]
        if name != "nvl":
            kids.append(("op", "Boolean", "or_isnull", "({0} or isnull(Me_i))", [scalar_tree(draw, "Boolean", depth - 1)]))
        return ("op", typ, name, tpl.replace("{c}", "{2}"), kids)
    name, _, tpl, ops = draw(st.sampled_from(BY_RESULT[typ]))
    kids = []
    for o in ops:
        if o.startswith("="):
            kids.append(("leaf", o[1:], draw(st.sampled_from(LITS[o[1:]])), "fixed"))
        elif o.startswith("^"):
            # operand restricted to a component or a literal: time_agg over a nested time_agg / dateadd / current_date expression does not
            # terminate on this tree (e.g. time_agg("D", time_agg("A", Me_d, first), last) runs for minutes with growing memory) - a hang is
            # neither of the two outcomes the property distinguishes, so the shape is excluded by construction and reported in DESIGN.md
            kids.append(("leaf", o[1:], COMP[o[1:]] if comps and draw(st.booleans()) else draw(st.sampled_from([l for l in LITS[o[1:]] if "9999" not in l])), "fixed"))
        else:
            kids.append(scalar_tree(draw, o, depth - 1, comps))
    return ("op", typ, name, tpl, kids)


def render_tree(t):
    if t[0] == "leaf":
        return t[2]
    return t[3].format(*[render_tree(k) for k in t[4]])


def tree_ops(t, acc=None):
    acc = [] if acc is None else acc
    if t[0] == "op":
        acc.append(t[2])
        for k in t[4]:
            tree_ops(k, acc)
    return acc


def tree_size(t):
    return 1 + (sum(tree_size(k) for k in t[4]) if t[0] == "op" else 0)


def all_ops(t):
    if t[0] == "op":
        yield t
        for k in t[4]:
            yield from all_ops(k)


def tree_variants(t, top=True):
    """Smaller trees of the same type: a same-typed descendant in place of a node, or a leaf in place of an operand."""
    if t[0] != "op":
        return
    def descendants(n):
        if n[0] == "op":
            for k in n[4]:
                yield k
                yield from descendants(k)
    for d in descendants(t):
        if d[1] == t[1] and len(d) == 3 or (d[0] == "op" and d[1] == t[1]):
            yield d
    for i, k in enumerate(t[4]):
        if k[0] == "op":
            for leaf in (("leaf", k[1], COMP[k[1]]), ("leaf", k[1], LITS[k[1]][0])):
                yield t[:4] + (t[4][:i] + [leaf] + t[4][i + 1:],)
            for v in tree_variants(k, False):
                yield t[:4] + (t[4][:i] + [v] + t[4][i + 1:],)


AGGS = ["sum", "avg", "count", "min", "max", "median", "stddev_pop", "stddev_samp", "var_pop", "var_samp"]
ANALYTIC = AGGS + ["first_value", "last_value", "rank", "ratio_to_report", "lag", "lead"]

# dataset-level templates: (name, script, datasets used)
DATASET_LEVEL = [
    ("ds+ds", "R <- DS_N + DS_N2;"), ("ds*ds", "R <- DS_N * DS_N2;"), ("ds/ds", "R <- DS_N / DS_N2;"), ("ds-ds", "R <- DS_N - DS_N2;"),
    ("ds/0", "R <- DS_N / 0;"), ("0/ds", "R <- 1 / DS_N;"), ("ds*big", "R <- DS_N * 99999999999999999999999999999999999999.0 * 99999999999999999999999999999999999999.0;"), ("mod ds", "R <- mod(DS_N, DS_N2);"), ("mod ds 0", "R <- mod(DS_N, 0);"),
    ("power ds", "R <- power(DS_N, 1000);"), ("power ds frac", "R <- power(DS_N, 0.5);"), ("log ds", "R <- log(DS_N, 10);"), ("log ds base", "R <- log(DS_N, -2);"), ("ln ds", "R <- ln(DS_N);"), ("exp ds", "R <- exp(DS_N);"), ("sqrt ds", "R <- sqrt(DS_N);"),
    ("round ds", "R <- round(DS_N, 400);"), ("round ds neg", "R <- round(DS_N, -400);"), ("trunc ds", "R <- trunc(DS_N, 63);"), ("ceil ds", "R <- ceil(DS_N);"), ("floor ds", "R <- floor(DS_N);"), ("abs ds", "R <- abs(DS_N);"), ("neg ds", "R <- - DS_N;"),
    ("random ds", "R <- random(DS_I, 3);"), ("ds int +", "R <- DS_I + DS_I;"), ("ds int *", "R <- DS_I * DS_I;"), ("ds int * big", "R <- DS_I * 9223372036854775807;"), ("ds int neg", "R <- - DS_I;"), ("ds int abs", "R <- abs(DS_I);"), ("ds int / ", "R <- DS_I / DS_I;"),
    ("str ||", 'R <- DS_S || DS_S;'), ("str substr", "R <- substr(DS_S, 1, 0);"), ("str substr big", "R <- substr(DS_S, 9223372036854775807, 9223372036854775807);"), ("str instr", 'R <- instr(DS_S, "", 1, 1);'), ("str instr big", 'R <- instr(DS_S, "a", 9223372036854775807, 9223372036854775807);'),
    ("str replace", 'R <- replace(DS_S, "", "x");'), ("str match", 'R <- match_characters(DS_S, "[a-");'), ("str match2", 'R <- match_characters(DS_S, "(");'), ("str match3", 'R <- match_characters(DS_S, "a{2");'), ("str length", "R <- length(DS_S);"),
    ("str cast int", "R <- cast(DS_S, integer);"), ("str cast num", "R <- cast(DS_S, number);"), ("str cast date", "R <- cast(DS_S, date);"), ("str cast tp", "R <- cast(DS_S, time_period);"), ("str cast bool", "R <- cast(DS_S, boolean);"), ("str cast dur", "R <- cast(DS_S, duration);"),
    ("num cast int", "R <- cast(DS_N, integer);"), ("num cast str", "R <- cast(DS_N, string);"), ("num cast bool", "R <- cast(DS_N, boolean);"),
    ("hamming ds", 'R <- string_distance(hamming, DS_S, "abc");'), ("lev ds", "R <- string_distance(levenshtein, DS_S, DS_S);"),
    ("timeshift", "R <- timeshift(DS_T, {i});"), ("fill single", "R <- fill_time_series(DS_T, single);"), ("fill all", "R <- fill_time_series(DS_T, all);"), ("flow_to_stock", "R <- flow_to_stock(DS_T);"), ("stock_to_flow", "R <- stock_to_flow(DS_T);"),
    ("time_agg ds", 'R <- time_agg("{dur}", DS_TM);'), ("time_agg sum", 'R <- sum(DS_T group all time_agg("{dur}"));'), ("period_indicator ds", "R <- period_indicator(DS_T);"),
    ("timeshift date", "R <- timeshift(DS_D, {i});"), ("fill date", "R <- fill_time_series(DS_D, all);"), ("flow_to_stock date", "R <- flow_to_stock(DS_D);"), ("stock_to_flow date", "R <- stock_to_flow(DS_D);"), ("time_agg date", 'R <- time_agg("{dur}", DS_DM, first);'),
    ("agg", "R <- {agg}(DS_N group by Id_2);"), ("agg all", "R <- {agg}(DS_N);"), ("agg int", "R <- {agg}(DS_I group by Id_2);"), ("agg str", "R <- {aggmm}(DS_S group by Id_2);"), ("agg having", "R <- sum(DS_N group by Id_2 having {agg}(Me_1) > 0);"),
    ("aggr clause", "R <- DS_N[aggr Me_x := {agg}(Me_1) group by Id_2];"), ("agg time", "R <- {aggmm}(DS_T group by Id_1);"),
    ("analytic", "R <- {an}(DS_N over (partition by Id_2 order by Id_1));"), ("analytic int", "R <- {an}(DS_I over (partition by Id_2 order by Id_1));"), ("analytic win", "R <- {agg}(DS_N over (partition by Id_2 order by Id_1 data points between {i0} preceding and {i0} following));"),
    ("analytic range", "R <- {agg}(DS_I over (order by Id_1 range between {i0} preceding and current data point));"), ("analytic calc", "R <- DS_N[calc Me_x := {an}(Me_1 over (partition by Id_2 order by Id_1))];"),
    ("lag ds", "R <- lag(DS_N, {i0} over (partition by Id_2 order by Id_1));"), ("lead big", "R <- lead(DS_N, 9223372036854775807 over (partition by Id_2 order by Id_1));"), ("ratio", "R <- ratio_to_report(DS_N over (partition by Id_2));"),
    ("union", "R <- union(DS_N, DS_N2);"), ("setdiff", "R <- setdiff(DS_N, DS_N2);"), ("symdiff", "R <- symdiff(DS_N, DS_N2);"), ("intersect", "R <- intersect(DS_N, DS_N2);"),
    ("exists_in", "R <- exists_in(DS_N, DS_N2, all);"), ("check", 'R <- check(DS_N > DS_N2 errorcode "E" errorlevel 1 imbalance DS_N - DS_N2 invalid);'), ("check /", "R <- check(DS_N / DS_N2 > 1 imbalance DS_N / DS_N2);"),
    ("join calc", "R <- inner_join(DS_N as a, DS_X as b calc Me_x := Me_1 / Me_9);"), ("left join", "R <- left_join(DS_N as a, DS_I as b rename a#Me_1 to Me_a, b#Me_1 to Me_b);"), ("cross join", "R <- cross_join(DS_N as a, DS_I as b rename a#Id_1 to A1, a#Id_2 to A2, a#Me_1 to MA, b#Id_1 to B1, b#Id_2 to B2, b#Me_1 to MB);"),
    ("unpivot", "R <- DS_NN[unpivot Id_9, Me_9];"), ("sub", 'R <- DS_N[sub Id_2 = "a"];'), ("filter /", "R <- DS_N[filter 1 / Me_1 > 0];"), ("if ds", "R <- if DS_N > 0 then DS_N else DS_N2;"),
    ("dpr", 'define datapoint ruleset dpr (variable Me_1, Id_2) is r1: when Id_2 = "a" then 1 / Me_1 > 0 errorcode "X" errorlevel 1; r2: sqrt(Me_1) >= 0 end datapoint ruleset; R <- check_datapoint(DS_N, dpr {out});'),
    ("hr check", 'define hierarchical ruleset hr (variable rule Id_2) is r1: a = b + c errorcode "h" errorlevel 2; r2: a >= b end hierarchical ruleset; R <- check_hierarchy(DS_N, hr rule Id_2 {hmode} {out});'),
    ("hierarchy", "define hierarchical ruleset hr (variable rule Id_2) is a = b + c; d = a - b end hierarchical ruleset; R <- hierarchy(DS_N, hr rule Id_2 {hmode} {hout});"),
    ("multi scalar in clauses", "sc := 2.5 + 1; A := DS_N[calc Me_x := Me_1 + sc]; B := DS_N[filter Me_1 > sc]; R <- A + B[calc Me_x := Me_1 / sc];"),
    ("multi chain", "A := DS_N * DS_N2; B := A / DS_N; C <- B[calc Me_x := sqrt(Me_1)]; R <- inner_join(C as c, DS_X as i calc Me_y := Me_1 / Me_9);"),
    ("multi reuse", "T := sum(DS_N group by Id_2); U := DS_N[aggr Me_x := max(Me_1) group by Id_2]; R <- T / T; S <- U[calc Me_z := ln(Me_x)];"),
    ("scalar", "R <- {scalar};"), ("scalar in ds", "R <- DS_N + {scalar_n};"),
    ("udo", "define operator f (x component, y component) returns component is x / y end operator; R <- DS_N[calc Me_x := f(Me_1, Me_1 - Me_1)];"), ("udo ds", "define operator g (x dataset, y number) returns dataset is sqrt(x) / y end operator; R <- g(DS_N, 0);"),
]


def mk_inputs(draw):
    """Input datasets with hazard values.  -> (structures dict, {name: DataFrame-able rows}, comps)"""
    from hypothesis import strategies as st
    def rows_for(comps, idvals, n):
        keys = draw(st.lists(st.tuples(*[st.sampled_from(v) for v in idvals]), min_size=1, max_size=n, unique=True))
        out = []
        for k in keys:
            r = dict(zip([c["name"] for c in comps if c["role"] == "Identifier"], k))
            for c in comps:
                if c["role"] != "Identifier":
                    r[c["name"]] = draw(st.sampled_from(POOLS[c["type"]]))
            out.append(r)
        return out
    I12 = [eng.comp("Id_1", "Integer", "I"), eng.comp("Id_2", "String", "I")]
    idv = [[1, 2, 3, 4], ["a", "b", "c"]]
    dss = {}
    dss["DS_1"] = I12 + [eng.comp(COMP[t], t) for t in COMP]
    dss["DS_N"] = I12 + [eng.comp("Me_1", "Number")]
    dss["DS_N2"] = I12 + [eng.comp("Me_1", "Number")]
    dss["DS_NN"] = I12 + [eng.comp("Me_1", "Number"), eng.comp("Me_2", "Number")]
    dss["DS_I"] = I12 + [eng.comp("Me_1", "Integer")]
    dss["DS_S"] = I12 + [eng.comp("Me_1", "String")]
    dss["DS_T"] = [eng.comp("Id_1", "Integer", "I"), eng.comp("Id_t", "Time_Period", "I"), eng.comp("Me_1", "Number")]
    dss["DS_D"] = [eng.comp("Id_1", "Integer", "I"), eng.comp("Id_t", "Date", "I"), eng.comp("Me_1", "Number")]
    dss["DS_X"] = I12 + [eng.comp("Me_9", "Integer")]
    dss["DS_TM"] = I12 + [eng.comp("Me_1", "Time_Period")]
    dss["DS_DM"] = I12 + [eng.comp("Me_1", "Date")]
    rows = {}
    for n, comps in dss.items():
        if n == "DS_T":
            fam = draw(st.sampled_from([["2020", "2021", "2023", "2030"], ["2020Q1", "2020Q4", "2021Q2"], ["2020M1", "2020M12", "2021M2"], ["2020W1", "2020W53", "2021W52"], ["2020D1", "2020D366", "2021D365"], ["2020S1", "2020S2", "2022S1"],
                                        ["2020", "2020Q1", "2020M12", "2020D366"]]))
            rows[n] = rows_for(comps, [[1, 2], fam], 6)
        elif n == "DS_D":
            rows[n] = rows_for(comps, [[1, 2], ["2020-02-29", "2020-12-31", "2021-01-03", "2024-12-31", "2019-01-01", "2021-03-31"]], 6)
        else:
            rows[n] = rows_for(comps, idv, 6)
    return dss, rows


def build_case(draw):
    from hypothesis import strategies as st
    dss, rows = mk_inputs(draw)
    used = []
    kind = draw(st.sampled_from(["calc", "calc", "calc", "filter", "dataset", "dataset", "dataset"]))
    if kind == "calc":
        typ = draw(st.sampled_from(sorted(BY_RESULT)))
        tree = scalar_tree(draw, typ, draw(st.integers(1, 3)))
        wrap = "R <- DS_1[calc Me_x := %s];"
    elif kind == "filter":
        tree = scalar_tree(draw, "Boolean", draw(st.integers(1, 3)))
        wrap = "R <- DS_1[filter %s];"
    if kind in ("calc", "filter"):
        used = tree_ops(tree)
        script = wrap % render_tree(tree)
    else:
        tree = wrap = None
        name, tpl = draw(st.sampled_from(DATASET_LEVEL))
        used.append("ds:" + name)
        subs = {}
        if "{i}" in tpl: subs["i"] = draw(st.sampled_from([0, 1, -1, 5, -13, 400, 10000]))
        if "{i0}" in tpl: subs["i0"] = draw(st.sampled_from([0, 1, 2, 1000, 9223372036854775807]))
        if "{dur}" in tpl: subs["dur"] = draw(st.sampled_from(["A", "S", "Q", "M", "W", "D"]))
        if "{agg}" in tpl: subs["agg"] = draw(st.sampled_from(AGGS))
        if "{aggmm}" in tpl: subs["aggmm"] = draw(st.sampled_from(["min", "max", "count"]))
        if "{an}" in tpl: subs["an"] = draw(st.sampled_from([a for a in ANALYTIC if a not in ("lag", "lead")]))
        if "{out}" in tpl: subs["out"] = draw(st.sampled_from(["", "invalid", "all", "all_measures"]))
        if "{hmode}" in tpl: subs["hmode"] = draw(st.sampled_from(["", "non_null", "non_zero", "partial_null", "partial_zero", "always_null", "always_zero"]))
        if "{hout}" in tpl: subs["hout"] = draw(st.sampled_from(["", "computed", "all"]))
        if "{scalar}" in tpl:
            t = draw(st.sampled_from(sorted(BY_RESULT)))
            tr = scalar_tree(draw, t, 2, comps=False)
            subs["scalar"] = render_tree(tr); used += tree_ops(tr)
        if "{scalar_n}" in tpl:
            tr = scalar_tree(draw, "Number", 2, comps=False)
            subs["scalar_n"] = render_tree(tr); used += tree_ops(tr)
        script = tpl
        for k, v in subs.items():
            script = script.replace("{%s}" % k, str(v))
        for k, v in subs.items():
            used.append("%s=%s" % (k, v if k in ("agg", "an", "dur", "out", "hmode", "hout", "aggmm") else "*"))
    names = sorted(n for n in dss if re.search(r"\b%s\b" % n, script))
    fmt = draw(st.sampled_from(FORMATS))
    return dict(script=script, structs={n: dss[n] for n in names}, rows={n: rows[n] for n in names}, fmt=fmt, used=used, tree=tree, wrap=wrap)


_CAT = None


def catalogue():
    global _CAT
    if _CAT is None:
        from vtlengine.Exceptions.messages import centralised_messages
        _CAT = set(centralised_messages)
    return _CAT


def norm_msg(e):
    s = str(e).split("\n")[0]
    s = re.sub(r"'[^']*'|\"[^\"]*\"", "'_'", s)
    s = re.sub(r"-?\d+(\.\d+)?(e[+-]?\d+)?", "N", s)
    return re.sub(r"\s+", " ", s)[:90]


def classify(fn):
    """Run fn() -> ('ok', None) | ('vtl', code) | ('vtl_uncatalogued', code) | ('raw', key)"""
    from vtlengine.Exceptions import VTLEngineException
    try:
        fn()
        return "ok", None, None
    except VTLEngineException as e:
        code = e.args[1] if len(e.args) > 1 else None
        if code not in catalogue():
            return "vtl_uncatalogued", "%s:%s" % (type(e).__name__, code), e
        return "vtl", code, e
    except Exception as e:  # noqa
        return "raw", "%s:%s" % (type(e).__name__, norm_msg(e)), e


def run_one(case):
    """-> (status, key, text).  status: 'skip:<why>' when the precondition does not hold."""
    import pandas as pd
    from vtlengine import run, semantic_analysis, validate_dataset
    S = eng.structures(*[eng.structure(n, c) for n, c in case["structs"].items()])
    dps = {n: eng.frame(case["structs"][n], case["rows"][n]) for n in case["structs"]}
    k, key, e = classify(lambda: semantic_analysis(script=case["script"], data_structures=S))
    if k != "ok":
        # outside the property's domain (scripts that pass semantic analysis), whatever semantic_analysis raised
        return "skip:semantic%s:%s" % ("_raw" if k == "raw" else "", key), None, None
    if dps:
        k, key, e = classify(lambda: validate_dataset(data_structures=S, datapoints={n: d.copy() for n, d in dps.items()}))
        if k != "ok":
            return "skip:load:%s" % key, None, None
    kw = dict(script=case["script"], data_structures=S, datapoints=dps, time_period_output_format=case["fmt"])
    k, key, e = classify(lambda: run(**kw))
    if k in ("ok", "vtl"):
        return k, key, None
    return k, key, "%s: %s (innermost engine frame %s)" % (type(e).__name__, str(e)[:300], eng.innermost_frame(e))


def shrink_case(case, key):
    """ddmin over rows, then null out cells, while the same key persists."""
    def same(c):
        try:
            s, k, _ = run_one(c)
        except Exception:
            return False
        return s in ("raw", "vtl_uncatalogued") and k == key
    budget = 60
    if case.get("tree"):
        changed = True
        while changed and budget > 0:
            changed = False
            anyt = list(all_ops(case["tree"]))[1:] if "calc" in case["wrap"] else []   # a calc accepts a result of any type
            for v in sorted(anyt + list(tree_variants(case["tree"])), key=tree_size):
                if tree_size(v) >= tree_size(case["tree"]) or budget <= 0:
                    continue
                budget -= 1
                c2 = dict(case, tree=v, script=case["wrap"] % render_tree(v), used=tree_ops(v))
                if same(c2):
                    case, changed = c2, True
                    break
    budget = 40
    for n in sorted(case["rows"]):
        i = 0
        while i < len(case["rows"][n]) and budget > 0:
            rows = case["rows"][n]
            c2 = dict(case, rows=dict(case["rows"], **{n: rows[:i] + rows[i + 1:]}))
            budget -= 1
            if same(c2):
                case = c2
            else:
                i += 1
    return case


def work_generated(seed, n):
    warnings.filterwarnings("ignore")
    if os.environ.get("VERIF_DEBUG_STUCK"):
        import faulthandler
        faulthandler.dump_traceback_later(90, repeat=True, file=open("/var/tmp/c32-stuck-%d.log" % os.getpid(), "w"))
        global _LAST
    import hypothesis
    from hypothesis import given, settings, HealthCheck, strategies as st
    part = core.Part()

    @settings(max_examples=n, database=None, deadline=None, suppress_health_check=list(HealthCheck), phases=[hypothesis.Phase.generate])
    @hypothesis.seed(seed)
    @given(st.composite(build_case)())
    def prop(case):
        if os.environ.get("VERIF_DEBUG_STUCK"):
            open("/var/tmp/c32-last-%d.txt" % os.getpid(), "w").write(case["script"] + "\n" + json.dumps(case["rows"])[:3000])
        status, key, text = run_one(case)
        if status.startswith("skip:"):
            part.hist["skipped:" + status.split(":")[1]] += 1
            for u in case["used"]:
                part.hist["skipped_op:" + u.split("=")[0]] += 0
            return
        nt = status != "ok"
        part.case(core.fingerprint([case["script"], case["rows"], case["fmt"]]), nt,
                  sample=dict(script=case["script"], fmt=case["fmt"], outcome="%s %s" % (status, key)) if nt and len(part.samples) < 2 else None,
                  labels=["outcome=" + status, "fmt=" + case["fmt"]] + ["op=" + u for u in case["used"] if "=*" not in u][:6] + (["code=" + str(key)] if status == "vtl" else []))
        if status in ("raw", "vtl_uncatalogued"):
            case = shrink_case(case, key)
            site = "+".join(sorted(set(u for u in case["used"] if "=" not in u and u != "or_isnull"))[:5])
            case = {k: v for k, v in case.items() if k not in ("tree", "wrap")}
            part.fail("%s:%s@%s" % (status, key, site), dict(kind="generated", case=case), text)
    prop()
    return part


def work_templates(seed, shard, nshards):
    """Every dataset-level template once per run (fixed parameter choices rotated by the seed), over generated hazard data."""
    warnings.filterwarnings("ignore")
    import hypothesis
    from hypothesis import given, settings, HealthCheck, strategies as st
    part = core.Part()
    box = {}

    @settings(max_examples=1, database=None, deadline=None, suppress_health_check=list(HealthCheck), phases=[hypothesis.Phase.generate])
    @hypothesis.seed(seed)
    @given(st.composite(lambda d: mk_inputs(d))())
    def grab(x):
        box["x"] = x
    grab()
    dss, rows = box["x"]
    subs = {"i": ["1", "-13", "400"], "i0": ["1", "9223372036854775807", "0"], "dur": ["A", "M", "D", "Q"], "agg": AGGS, "aggmm": ["max", "min", "count"], "an": ["rank", "first_value", "ratio_to_report", "avg"],
            "out": ["all", "invalid", ""], "hmode": ["non_null", "always_zero", ""], "hout": ["all", "computed"], "scalar": ["1 / 0", "sqrt(-1.0)"], "scalar_n": ["2.5", "0.0"]}
    for ti, (name, tpl) in enumerate(DATASET_LEVEL):
        if ti % nshards != shard:
            continue
        script = tpl
        for k, vals in subs.items():
            script = script.replace("{%s}" % k, str(vals[(seed + ti) % len(vals)]))
        names = sorted(n for n in dss if re.search(r"\b%s\b" % n, script))
        case = dict(script=script, structs={n: dss[n] for n in names}, rows={n: rows[n] for n in names}, fmt=FORMATS[(seed + ti) % 4], used=["ds:" + name])
        status, key, text = run_one(case)
        if status.startswith("skip:"):
            part.hist["template_skipped:" + status.split(":")[1]] += 1
            continue
        part.case("template:%s:%d" % (name, seed), status != "ok", labels=["template", "outcome=" + status])
        if status in ("raw", "vtl_uncatalogued"):
            part.fail("%s:%s@ds:%s" % (status, key, name), dict(kind="generated", case=case), text)
    return part


def work_corpus(ids, seed):
    warnings.filterwarnings("ignore")
    from verif import corpus
    from vtlengine import run
    part = core.Part()
    cases = {c["id"]: c for c in corpus.executable_cases(max_s=4.0)}
    for cid in ids:
        c = cases[cid]
        for fmt in FORMATS:
            kw = corpus.run_kwargs(c)
            kw["time_period_output_format"] = fmt
            k, key, e = classify(lambda: run(**kw))
            nt = k != "ok"
            part.case("corpus:%s:%s" % (cid, fmt), nt, sample=dict(corpus=cid, fmt=fmt, outcome="%s %s" % (k, key)) if nt and len(part.samples) < 1 else None, labels=["corpus", "outcome=" + k, "fmt=" + fmt])
            if k in ("raw", "vtl_uncatalogued"):
                part.fail("%s:%s" % (k, key), dict(kind="corpus", id=cid, fmt=fmt), "%s: %s (innermost engine frame %s)" % (type(e).__name__, str(e)[:300], eng.innermost_frame(e)))
    return part


def _dispatch(fname, args):
    return globals()[fname](*args)


def run(ctx):
    from verif import corpus
    ctx.rule = ("cases: generated scripts over the operator catalogue with hazard data x output format, and corpus cases x 4 output formats; only cases where semantic_analysis and validate_dataset pass are counted; "
                "non-trivial = the run raises (VTL error or raw); distinct by (script, data, format)")
    n = int(os.environ.get("VERIF_C32_N", 0)) or (60 if ctx.quick else 3000)
    jobs = [("work_generated", (ctx.seed * 1009 + k, n)) for k in range(16)]
    ids = [c["id"] for c in corpus.executable_cases(max_s=4.0)]
    ids = corpus.rotate(ids, ctx.seed, 160) if ctx.quick else ids
    jobs += [("work_corpus", (ids[k::16], ctx.seed)) for k in range(16)]
    jobs += [("work_templates", (ctx.seed, k, 4)) for k in range(4)]
    ctx.merge(core.pmap("checks.c32", "_dispatch", jobs, procs=16))
    ctx.assumptions = ["a VTL error is any VTLEngineException subclass whose code is a key of vtlengine.Exceptions.messages.centralised_messages",
                       "the precondition (semantic analysis and load validation pass) is checked by calling the engine's own semantic_analysis and validate_dataset"]


def replay(ctx, path):
    import json
    warnings.filterwarnings("ignore")
    c = json.load(open(path))["case"]
    if c.get("kind") == "corpus":
        from verif import corpus
        from vtlengine import run as vrun
        cs = {x["id"]: x for x in corpus.executable_cases(max_s=1e9)}
        kw = corpus.run_kwargs(cs[c["id"]]); kw["time_period_output_format"] = c["fmt"]
        k, key, e = classify(lambda: vrun(**kw))
        print("replay corpus %s: %s %s" % (c["id"], k, key))
        return 1 if k in ("raw", "vtl_uncatalogued") else 0
    s, key, text = run_one(c["case"])
    print("replay: %s %s %s" % (s, key, text))
    return 1 if s in ("raw", "vtl_uncatalogued", "semantic_raw") else 0
