"""Shared machinery of C18 / C19 / C20: one logical table -> the engine's input forms -> verdicts."""
import os, shutil, tempfile, warnings
from verif import core, eng, inputs, valuecat, cmp

PASS = "R <- DS_1;"
PROJ = "R <- DS_1 [calc ok := 1] [keep ok];"


def structure(typ, dwi=False, nullable=True, role="M"):
    comps = ([] if dwi else [eng.comp("Id_1", "Integer", "I")]) + [eng.comp("Me_1", typ, role, nullable if role != "I" else False)]
    return comps, eng.structures(eng.structure("DS_1", comps))


def verdict(fn):
    """-> (class, detail): ok | input (DataLoadError / InputValidationException) | vtl_other | raw"""
    from vtlengine.Exceptions import DataLoadError, InputValidationException, VTLEngineException
    try:
        return "ok", fn()
    except (DataLoadError, InputValidationException) as e:
        return "input", "%s %s" % (type(e).__name__, e.args[1] if len(e.args) > 1 else "")
    except VTLEngineException as e:
        return "vtl_other", "%s %s: %s" % (type(e).__name__, e.args[1] if len(e.args) > 1 else "", str(e)[:100])
    except Exception as e:  # noqa
        return "raw", "%s: %s" % (type(e).__name__, str(e)[:120])


def materialise(form, comps, header, rows, tmp, tag):
    """form in csv | df | parquet | df_native | parquet_native -> datapoints value, or None when not representable."""
    if form in ("csv", "df", "parquet"):
        return inputs.materialise(form, "DS_1", header, rows, tmp, tag)
    import pandas as pd
    types = {c["name"]: c["type"] for c in comps}
    cols = {}
    try:
        for i, h in enumerate(header):
            cols[h] = [None if r[i] is None else valuecat.native_value(types[h], r[i]) for r in rows]
    except (ValueError, KeyError):
        return None
    df = pd.DataFrame(cols)
    if form == "df_native":
        return df
    import pyarrow as pa, pyarrow.parquet as pq, pathlib
    d = os.path.join(tmp, "pqn" + tag)
    os.makedirs(d, exist_ok=True)
    p = os.path.join(d, "DS_1.parquet")
    pq.write_table(pa.Table.from_pandas(df, preserve_index=False), p)
    return pathlib.Path(p)


def run_table(S, script, dp, fmt="vtl"):
    from vtlengine import run
    return verdict(lambda: run(script=script, data_structures=S, datapoints={"DS_1": dp}, time_period_output_format=fmt))


def result_cell(res, col="Me_1", key=1):
    df = res["R"].data
    for rec in df.to_dict("records"):
        if "Id_1" not in rec or eng.norm(rec["Id_1"]) == key:
            return cmp.canon_value(rec.get(col))
    return "<missing row>"


class Tmp:
    def __enter__(self):
        self.d = tempfile.mkdtemp(prefix="inp_", dir=os.environ.get("VERIF_TMP", "/var/tmp"))
        return self.d

    def __exit__(self, *a):
        shutil.rmtree(self.d, ignore_errors=True)
