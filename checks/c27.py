"""C27 — SDMX structures map to VTL structures as documented (EXHAUSTIVE over data types x roles).

Oracle: the two tables of docs/data_structures.rst ("Inside the conversion") transcribed as data: one VTL component per SDMX
component, role Dimension->Identifier / Measure->Measure / Attribute->Attribute, nullable <=> not a dimension, documented type;
an SDMX data type absent from the documented table => InputValidationException (not KeyError).
Exhaustive: every member of pysdmx.model.DataType x every Role as single-component probes through to_vtl_json,
semantic_analysis(data_structures=obj) for Schema / DataStructureDefinition / Dataflow, and run_sdmx; plus Hypothesis-generated
structures of 1-5 components mixing roles and types.
"""
import warnings
from verif import core, eng

LEVEL = "exploration"
# docs/data_structures.rst, table "SDMX data type -> VTL type" (DataType.value spelling of pysdmx)
DOC_TYPES = {}
for names, vtl in [
    ("String Alpha AlphaNumeric Numeric URI Month MonthDay Day Time", "String"),
    ("BigInteger Integer Long Short Count", "Integer"),
    ("Decimal Float Double InclusiveValueRange ExclusiveValueRange Incremental", "Number"),
    ("Boolean", "Boolean"),
    ("BasicTimePeriod GregorianTimePeriod GregorianYear GregorianYearMonth GregorianMonth GregorianDay DateTime", "Date"),
    ("ObservationalTimePeriod StandardTimePeriod ReportingTimePeriod ReportingYear ReportingSemester ReportingTrimester ReportingQuarter ReportingMonth ReportingWeek ReportingDay", "Time_Period"),
    ("TimeRange", "Time"), ("Duration", "Duration"),
]:
    for n in names.split():
        DOC_TYPES[n] = vtl
DOC_ROLES = {"DIMENSION": ("Identifier", False), "MEASURE": ("Measure", True), "ATTRIBUTE": ("Attribute", True)}


def build(comp_specs, kind="schema"):
    """comp_specs: [(id, DataType, Role)] -> pysdmx object"""
    from pysdmx.model import Schema, Components, Component, Role, Concept
    from pysdmx.model.dataflow import DataStructureDefinition, Dataflow
    cs = Components([Component(id=i, required=(r == Role.DIMENSION), role=r, concept=Concept(id=i), local_dtype=t,
                               **({"attachment_level": "O"} if r == Role.ATTRIBUTE else {})) for i, t, r in comp_specs])
    if kind == "schema":
        return Schema(context="datastructure", agency="MD", id="DS_1", components=cs, version="1.0")
    dsd = DataStructureDefinition(id="DS_1", agency="MD", version="1.0", components=cs, name="DS_1")
    if kind == "dsd":
        return dsd
    return Dataflow(id="DS_1", agency="MD", version="1.0", name="DS_1", structure=dsd)


def expected(comp_specs):
    out = []
    for i, t, r in comp_specs:
        if t.value not in DOC_TYPES:
            return None
        role, nullable = DOC_ROLES[r.name]
        out.append({"name": i, "role": role, "type": DOC_TYPES[t.value], "nullable": nullable})
    return out


def norm_struct(js):
    return [{"name": c["name"], "role": c["role"], "type": c["type"], "nullable": c["nullable"]} for c in js["datasets"][0]["DataStructure"]]


def check_specs(part, specs, label, kinds=("schema", "dsd", "dataflow")):
    from vtlengine import semantic_analysis
    from vtlengine.files.sdmx_handler import to_vtl_json
    from vtlengine.Exceptions import InputValidationException, VTLEngineException
    exp = expected(specs)
    desc = [(i, t.value, r.name) for i, t, r in specs]
    for kind in kinds:
        try:
            obj = build(specs, kind)
        except Exception as e:  # pysdmx refuses the object: not an engine call
            part.hist["pysdmx_construction_failed:%s" % type(e).__name__] += 1
            continue
        case = dict(components=desc, object=kind)
        part.case("%s:%s:%r" % (label, kind, desc), True, sample=case if len(part.samples) < 3 else None, labels=[label, "object=" + kind])
        try:
            got = norm_struct(to_vtl_json(obj, "DS_1"))
            outcome = "ok"
        except InputValidationException as e:
            outcome, got = "input_validation", e
        except Exception as e:  # noqa
            outcome, got = "raw", e
        tkey = "+".join(sorted({t for _, t, _ in desc if t not in DOC_TYPES})) or "documented"
        if outcome == "raw":
            part.fail("to_vtl_json:raw:%s:%s" % (type(got).__name__, tkey), case, "%s: %s" % (type(got).__name__, str(got)[:200]))
            continue
        if exp is None:
            if outcome != "input_validation":
                part.fail("to_vtl_json:accepts_undocumented_type:%s" % tkey, case, "undocumented SDMX type mapped to %r" % (got,))
            # the API entry points must reject it the same way
            try:
                semantic_analysis("DS_r <- DS_1;", obj)
                part.fail("semantic_analysis:accepts_undocumented_type:%s" % tkey, case, "semantic_analysis accepted the structure")
            except InputValidationException:
                pass
            except Exception as e:  # noqa
                part.fail("semantic_analysis:raw:%s:%s" % (type(e).__name__, tkey), case, "%s: %s" % (type(e).__name__, str(e)[:200]))
            continue
        if outcome != "ok":
            part.fail("to_vtl_json:rejects_documented:%s" % "+".join(sorted({t for _, t, _ in desc})), case, str(got)[:200])
            continue
        gd, ed = {c["name"]: c for c in got}, {c["name"]: c for c in exp}   # component order is not documented: compare by name
        if len(got) != len(exp) or set(gd) != set(ed):
            part.fail("mapping:component_set", case, "to_vtl_json components %r, SDMX components %r" % (sorted(gd), sorted(ed)))
            continue
        bad = [(gd[n], ed[n]) for n in ed if gd[n] != ed[n]]
        if bad:
            field = [k for k in ("role", "type", "nullable") if bad[0][0][k] != bad[0][1][k]][0]
            src = [(t, r) for i, t, r in desc if i == bad[0][1]["name"]][0]
            part.fail("mapping:%s:%s/%s" % (field, src[0], src[1]), case, "to_vtl_json gave %r, documented %r" % bad[0])
            continue
        # structure actually used by semantic_analysis
        try:
            res = semantic_analysis("DS_r <- DS_1;", obj)
            used = [{"name": n, "role": {"IDENTIFIER": "Identifier", "MEASURE": "Measure", "ATTRIBUTE": "Attribute"}.get(c.role.name, c.role.name),
                     "type": {"TimeInterval": "Time", "TimePeriod": "Time_Period"}.get(c.data_type.__name__, c.data_type.__name__), "nullable": bool(c.nullable)} for n, c in res["DS_r"].components.items()]
            if sorted(used, key=lambda c: c["name"]) != sorted(exp, key=lambda c: c["name"]):
                part.fail("semantic_analysis:structure_differs:%s" % tkey, case, "semantic_analysis used %r, documented %r" % (used[:3], exp[:3]))
        except VTLEngineException as e:
            if not any(r == "DIMENSION" for _, _, r in desc):
                part.hist["semantic_rejects_dataset_without_identifier"] += 1
            else:
                part.fail("semantic_analysis:rejects_documented:%s" % kind, case, str(e)[:200])
        except Exception as e:  # noqa
            part.fail("semantic_analysis:raw:%s:%s" % (type(e).__name__, kind), case, "%s: %s" % (type(e).__name__, str(e)[:200]))


def work_exhaustive(idx):
    warnings.filterwarnings("ignore")
    from pysdmx.model import DataType, Role
    part = core.Part()
    combos = [(t, r) for t in DataType for r in (Role.DIMENSION, Role.MEASURE, Role.ATTRIBUTE)]
    for t, r in combos[idx::8]:
        specs = [("DIM_0", DataType.STRING, Role.DIMENSION)] if r != Role.DIMENSION else []
        specs.append(("C_1", t, r))
        check_specs(part, specs, "exhaustive")
    return part


def work_generated(seed, n):
    warnings.filterwarnings("ignore")
    import hypothesis
    from hypothesis import given, settings, HealthCheck, strategies as st
    from pysdmx.model import DataType, Role
    part = core.Part()
    comp = st.tuples(st.sampled_from(list(DataType)), st.sampled_from([Role.DIMENSION, Role.MEASURE, Role.ATTRIBUTE]))

    @settings(max_examples=n, database=None, deadline=None, suppress_health_check=list(HealthCheck), phases=[hypothesis.Phase.generate])
    @hypothesis.seed(seed)
    @given(st.lists(comp, min_size=1, max_size=5), st.sampled_from(["schema", "dsd", "dataflow"]))
    def prop(cs, kind):
        specs = [("C_%d" % i, t, r) for i, (t, r) in enumerate(cs)]
        check_specs(part, specs, "generated", kinds=(kind,))
    prop()
    return part


def work_run_sdmx():
    """run_sdmx with PandasDatasets built in memory: result structure follows the documented mapping."""
    warnings.filterwarnings("ignore")
    import pandas as pd
    from pysdmx.model import DataType, Role
    from pysdmx.io.pd import PandasDataset
    from vtlengine import run_sdmx
    part = core.Part()
    for t, vals in [(DataType.STRING, ["a", "b"]), (DataType.INTEGER, [1, 2]), (DataType.DOUBLE, [1.5, None]), (DataType.BOOLEAN, [True, False]), (DataType.DATE_TIME, ["2020-01-01", "2021-02-03"]),
                    (DataType.REP_QUARTER, ["2020-Q1", "2021-Q2"]), (DataType.SHORT, [1, 2]), (DataType.DECIMAL, [1.25, 2.5]), (DataType.URI, ["u", "v"]), (DataType.DURATION, ["A", "M"])]:
        specs = [("DIM_0", DataType.STRING, Role.DIMENSION), ("OBS", t, Role.MEASURE), ("ATT", DataType.STRING, Role.ATTRIBUTE)]
        case = dict(components=[(i, tt.value, r.name) for i, tt, r in specs], object="run_sdmx")
        part.case("run_sdmx:%s" % t.value, True, labels=["run_sdmx"])
        try:
            ds = PandasDataset(structure=build(specs, "schema"), data=pd.DataFrame({"DIM_0": ["x", "y"], "OBS": vals, "ATT": ["k", None]}))
        except Exception as e:
            part.hist["pysdmx_construction_failed:%s" % type(e).__name__] += 1
            continue
        try:
            res = run_sdmx("DS_r <- DS_1;", [ds], return_only_persistent=True)
            c = res["DS_r"].components
            got = {n: ({"TimeInterval": "Time", "TimePeriod": "Time_Period"}.get(x.data_type.__name__, x.data_type.__name__), x.role.name, bool(x.nullable)) for n, x in c.items()}
            exp = {"DIM_0": ("String", "IDENTIFIER", False), "OBS": (DOC_TYPES[t.value], "MEASURE", True), "ATT": ("String", "ATTRIBUTE", True)}
            if got != exp:
                part.fail("run_sdmx:structure:%s" % t.value, case, "result structure %r, documented %r" % (got, exp))
        except Exception as e:  # noqa
            part.fail("run_sdmx:%s:%s" % (eng.classify_exc(e).split(":")[0], t.value), case, "%s: %s" % (type(e).__name__, str(e)[:200]))
    return part


def _dispatch(fname, args):
    return globals()[fname](*args)


def run(ctx):
    ctx.rule = ("EXHAUSTIVE: every member of pysdmx.model.DataType x {DIMENSION, MEASURE, ATTRIBUTE} as Schema, DataStructureDefinition and Dataflow through to_vtl_json and semantic_analysis; plus Hypothesis structures "
                "of 1-5 components and run_sdmx over in-memory PandasDatasets; every (type, role, object kind) is a distinct non-trivial case")
    ctx.exhaustive = True
    n = 40 if ctx.quick else 1500
    jobs = [("work_exhaustive", (k,)) for k in range(8)] + [("work_generated", (ctx.seed * 1009 + k, n)) for k in range(7)] + [("work_run_sdmx", ())]
    ctx.merge(core.pmap("checks.c27", "_dispatch", jobs, procs=16))
    from pysdmx.model import DataType
    ctx.extra.update(sdmx_data_types=len(list(DataType)), undocumented_types=sorted(t.value for t in DataType if t.value not in DOC_TYPES))
    ctx.assumptions = ["SDMX-ML / SDMX-JSON files and URLs are not exercised (pysdmx[xml] extra not installed, no network): pysdmx objects and run_sdmx only"]


def replay(ctx, path):
    import json
    run(ctx)
    key = json.load(open(path))["key"]
    print("REPRODUCED" if key in ctx.part.failures else "not reproduced")
    return 1 if key in ctx.part.failures else 0
