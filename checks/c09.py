"""C09 — cast converts values according to the documented conversion table (EXHAUSTIVE over type pairs).

Oracle: the "Supported conversions without mask" table and the conversion details / dataset renaming table of
docs/data_types.rst transcribed as data.  For all 8x8 (source, target) pairs at scalar, component and dataset level:
forbidden pair => SemanticError from semantic_analysis()/run(); allowed pair => accepted, documented conversion of every pool
value, a VTL error (never a raw exception, never a value) for values that cannot be converted; dataset level: measure renamed
to <type>_var unless the source implicitly promotes to the target.
"""
import itertools, warnings
from verif import core, eng, cmp

LEVEL = "exploration"
TYPES = ["String", "Number", "Integer", "Boolean", "Time", "Date", "Time_Period", "Duration"]
KW = {"String": "string", "Number": "number", "Integer": "integer", "Boolean": "boolean", "Time": "time", "Date": "date", "Time_Period": "time_period", "Duration": "duration"}
# docs/data_types.rst, "Supported conversions without mask" (rows = from)
ALLOWED = {
    "String": {"String", "Number", "Integer", "Time", "Date", "Time_Period", "Duration"},
    "Number": {"String", "Number", "Integer", "Boolean"}, "Integer": {"String", "Number", "Integer", "Boolean"}, "Boolean": {"String", "Number", "Integer", "Boolean"},
    "Time": {"String", "Time"}, "Date": {"String", "Date", "Time_Period"}, "Time_Period": {"String", "Time_Period"}, "Duration": {"String", "Duration"},
}
VAR = {"String": "str_var", "Number": "num_var", "Integer": "int_var", "Boolean": "bool_var", "Time": "time_var", "Time_Period": "time_period_var", "Date": "date_var", "Duration": "duration_var"}
IMPLICIT = {("Boolean", "String"), ("Integer", "Number"), ("Number", "Integer")}  # note under "Cast on datasets"
# value pools: (input text, expected output or ANY when the docs do not fix the rendering); BAD = must raise a VTL error
ANY = object()
BAD = object()


def pool(src, tgt):
    if src == "Integer":
        vals = ["0", "1", "-7", "1000"]
        f = {"Integer": int, "Number": float, "Boolean": lambda v: int(v) != 0, "String": lambda v: v}[tgt]
        return [(v, f(v)) for v in vals]
    if src == "Number":
        vals = ["0.0", "1.0", "-2.5", "3.75"]
        if tgt == "Integer":
            return [("0.0", 0), ("1.0", 1), ("-2.5", ANY), ("3.75", ANY)]  # rounding mode of fractional values is not documented
        if tgt == "String":
            return [(v, ANY) for v in vals]
        f = {"Number": float, "Boolean": lambda v: float(v) != 0}[tgt]
        return [(v, f(v)) for v in vals]
    if src == "Boolean":
        f = {"Boolean": lambda b: b, "Integer": int, "Number": float, "String": lambda b: ANY}[tgt]  # the rendering of an explicit Boolean -> String cast is not documented
        return [("true", f(True)), ("false", f(False))]
    if src == "String":
        return {
            "String": [("abc", "abc"), ("", ANY), (" x ", " x ")],
            "Integer": [("42", 42), ("-7", -7), ("0", 0), ("3.5", BAD), ("abc", BAD)],
            "Number": [("3.5", 3.5), ("-0.25", -0.25), ("42", 42.0), ("abc", BAD)],
            "Date": [("2020-01-15", "2020-01-15"), ("2020-02-29", "2020-02-29"), ("2020-13-01", BAD), ("abc", BAD)],
            "Time_Period": [("2020Q1", "2020Q1"), ("2020-M03", "2020M3"), ("2020", "2020"), ("2020Q5", BAD), ("abc", BAD)],
            "Duration": [("A", "A"), ("M", "M"), ("X", BAD)],
            "Time": [("2020-01-01/2020-12-31", "2020-01-01/2020-12-31"), ("abc", BAD)],
        }[tgt]
    if src == "Date":
        return {"Date": [("2020-01-15", "2020-01-15")], "String": [("2020-01-15", ANY)], "Time_Period": [("2020-01-15", "2020D15"), ("2020-12-31", "2020D366"), ("2021-01-01", "2021D1"), ("2019-12-30", "2019D364"), ("2024-12-31", "2024D366"), ("2023-12-31", "2023D365"), ("2027-01-03", "2027D3")]}[tgt]
    if src == "Time":
        return [("2020-01-01/2020-12-31", "2020-01-01/2020-12-31" if tgt == "Time" else ANY)]
    if src == "Time_Period":
        return [("2020Q1", "2020Q1" if tgt == "Time_Period" else ANY), ("2020M03", "2020M3" if tgt == "Time_Period" else ANY)]
    if src == "Duration":
        return [("A", "A" if tgt == "Duration" else ANY), ("D", "D" if tgt == "Duration" else ANY)]


def classify(fn):
    from vtlengine.Exceptions import VTLEngineException, SemanticError
    try:
        return "ok", fn()
    except SemanticError as e:
        return "semantic", e
    except VTLEngineException as e:
        return "vtl", e
    except NotImplementedError as e:
        return "notimpl", e
    except Exception as e:  # noqa
        return "raw", e


def work(pairs):
    warnings.filterwarnings("ignore")
    from vtlengine import run, semantic_analysis
    part = core.Part()
    for src, tgt, level in pairs:
        allowed = tgt in ALLOWED[src]
        comps = [eng.comp("Id_1", "Integer", "I"), eng.comp("Me_1", src)]
        S = eng.structures(eng.structure("DS_1", comps), scalars=[("sc_a", src)])
        if level == "scalar":
            script = "r <- cast(sc_a, %s);" % KW[tgt]
        elif level == "component":
            script = "r <- DS_1 [calc x := cast(Me_1, %s)];" % KW[tgt]
        else:
            script = "r <- cast(DS_1, %s);" % KW[tgt]
        case = dict(source=src, target=tgt, level=level, script=script)
        part.case("%s:%s:%s" % (src, tgt, level), True, sample=case if len(part.samples) < 2 else None, labels=["level=" + level, "allowed" if allowed else "forbidden"])
        k, v = classify(lambda: semantic_analysis(script, S))
        if k == "raw":
            part.fail("semantic:raw:%s:%s:%s:%s" % (src, tgt, level, type(v).__name__), case, "semantic_analysis raised %s: %s" % (type(v).__name__, str(v)[:200]))
            continue
        if allowed and k != "ok":
            part.fail("semantic:rejects_allowed:%s:%s:%s" % (src, tgt, level), case, "documented conversion rejected: %s" % str(v)[:200])
            continue
        if not allowed:
            if k != "semantic":
                part.fail("semantic:accepts_forbidden:%s:%s:%s" % (src, tgt, level), case, "forbidden conversion %s (expected SemanticError)" % ("accepted" if k == "ok" else "raised %s" % type(v).__name__))
            continue
        sa = v
        if level == "dataset":
            want = "Me_1" if (src == tgt or (src, tgt) in IMPLICIT) else VAR[tgt]
            names = [n for n, c in sa["r"].components.items() if c.role.name == "MEASURE"]
            if names != [want]:
                part.fail("dataset:measure_name:%s:%s" % (src, tgt), case, "measure(s) %r, documented name %r" % (names, want))
        # values
        items = pool(src, tgt)
        good = [(i, e) for i, e in items if e is not BAD]
        bad = [i for i, e in items if e is BAD]
        if level == "scalar":
            for i, e in good + [(b, BAD) for b in bad]:
                sv = {"sc_a": {"Integer": lambda x: int(x), "Number": lambda x: float(x), "Boolean": lambda x: x == "true"}.get(src, lambda x: x)(i)}
                k, v = classify(lambda: run(script=script, data_structures=S, datapoints={}, scalar_values=sv))
                part.hist["value_runs"] += 1
                vc = dict(case, value=i)
                if k in ("raw", "notimpl"):
                    part.fail("value:raw:%s:%s:%s:%s" % (src, tgt, level, type(v).__name__), vc, "%s: %s" % (type(v).__name__, str(v)[:200]))
                elif e is BAD:
                    if k == "ok":
                        part.fail("value:accepts_unconvertible:%s:%s:%s" % (src, tgt, level), vc, "cast(%r) returned %r instead of raising" % (i, cmp.canon_value(v["r"].value)))
                elif k != "ok":
                    part.fail("value:rejects_convertible:%s:%s:%s" % (src, tgt, level), vc, "cast(%r) raised %s" % (i, str(v)[:160]))
                elif e is not ANY and not cmp.values_equal(cmp.canon_value(v["r"].value), e):
                    part.fail("value:wrong:%s:%s:%s" % (src, tgt, level), vc, "cast(%r) = %r, documented %r" % (i, cmp.canon_value(v["r"].value), e))
            continue
        col = "x" if level == "component" else ("Me_1" if (src == tgt or (src, tgt) in IMPLICIT) else VAR[tgt])
        rows = [{"Id_1": n + 1, "Me_1": i} for n, (i, e) in enumerate(good)] + [{"Id_1": 99, "Me_1": None}]
        k, v = classify(lambda: run(script=script, data_structures=S, datapoints={"DS_1": eng.frame(comps, rows)}))
        part.hist["value_runs"] += 1
        if k != "ok":
            part.fail("value:%s:%s:%s:%s" % ("raw" if k in ("raw", "notimpl") else "rejects_convertible", src, tgt, level), dict(case, values=[i for i, _ in good]), "%s: %s" % (type(v).__name__, str(v)[:200]))
        else:
            df = v["r"].data
            got = {int(r["Id_1"]): cmp.canon_value(r[col]) if col in df.columns else "<missing column %s>" % col for r in df.to_dict("records")}
            for n, (i, e) in enumerate(good):
                g = got.get(n + 1, "<missing row>")
                if e is ANY:
                    if g is None or (isinstance(g, str) and g.startswith("<missing")):
                        part.fail("value:lost:%s:%s:%s" % (src, tgt, level), dict(case, value=i), "cast(%r) gave %r" % (i, g))
                elif not cmp.values_equal(g, e):
                    part.fail("value:wrong:%s:%s:%s" % (src, tgt, level), dict(case, value=i), "cast(%r) = %r, documented %r" % (i, g, e))
            if got.get(99, "x") is not None:
                part.fail("value:null_not_preserved:%s:%s:%s" % (src, tgt, level), case, "cast(null) = %r" % (got.get(99),))
        for b in bad:
            rows = [{"Id_1": 1, "Me_1": b}]
            k, v = classify(lambda: run(script=script, data_structures=S, datapoints={"DS_1": eng.frame(comps, rows)}))
            part.hist["value_runs"] += 1
            vc = dict(case, value=b)
            if k in ("raw", "notimpl"):
                part.fail("value:raw:%s:%s:%s:%s" % (src, tgt, level, type(v).__name__), vc, "%s: %s" % (type(v).__name__, str(v)[:200]))
            elif k == "ok":
                part.fail("value:accepts_unconvertible:%s:%s:%s" % (src, tgt, level), vc, "cast(%r) returned %r instead of raising" % (b, v["r"].data.to_dict("records")))
    return part


def run(ctx):
    ctx.rule = ("EXHAUSTIVE over the 8x8 (source type, target type) table x 3 levels (scalar, component, dataset); each allowed pair is run over a value pool (0, negatives, fractional, booleans, period indicators, "
                "valid and unparsable strings, null); every (pair, level) is a distinct non-trivial case; oracle = docs/data_types.rst cast tables transcribed as data")
    ctx.exhaustive = True
    pairs = [(s, t, l) for s in TYPES for t in TYPES for l in ("scalar", "component", "dataset")]
    ctx.merge(core.pmap("checks.c09", "work", [(pairs[k::16],) for k in range(16)], procs=16))
    ctx.assumptions = ["renderings the docs do not fix (Number -> String text, Number -> Integer of fractional values, time types -> String) are only required to be non-null and not to raise",
                       "casts with mask are documented as not implemented and are not exercised"]


def replay(ctx, path):
    import json
    c = json.load(open(path))["case"]
    p = work([(c["source"], c["target"], c["level"])])
    print("replay failures:", {k: v[2] for k, v in p.failures.items()})
    return 1 if p.failures else 0
