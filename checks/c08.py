"""C08 — time operators follow the real calendar.

Part 1 (EXHAUSTIVE over a year range, bulk): every period of every indicator and every date of every year in the range through
period_indicator, getyear, getmonth / dayofmonth / dayofyear (dates), time_agg to every coarser indicator, datediff of neighbours,
dateadd by days; oracle = Python datetime / date.isocalendar().  Week 53 and day 366 exist exactly when the calendar has them.
Part 2 (generated): timeshift by n in -60..60 on time series of every indicator: calendar-correct target, shift(n) then shift(-n) =
identity, injectivity (no duplicate identifiers); flow_to_stock = running sum in period order and stock_to_flow its inverse.
"""
import calendar, datetime, warnings
from verif import core, eng
from checks.c21 import weeks_in, days_in, numbers

LEVEL = "exploration"


def vtl(ind, y, n):
    return "%04d" % y if ind == "A" else "%04d%s%d" % (y, ind, n)


def shift(ind, y, n, k):
    """calendar-correct period shifted by k periods"""
    if ind == "D":
        d = datetime.date(y, 1, 1) + datetime.timedelta(days=n - 1 + k)
        return d.year, (d - datetime.date(d.year, 1, 1)).days + 1
    if ind == "W":
        d = datetime.date.fromisocalendar(y, n, 1) + datetime.timedelta(weeks=k)
        iy, iw, _ = d.isocalendar()
        return iy, iw
    per = {"A": 1, "S": 2, "Q": 4, "M": 12}[ind]
    t = y * per + (n - 1) + k
    return t // per, t % per + 1


def coarser(ind, y, n, target):
    """containing period of indicator `target` (None if not defined here)"""
    if ind == "D":
        d = datetime.date(y, 1, 1) + datetime.timedelta(days=n - 1)
        m = d.month
        if target == "W":   # the ISO 8601 week containing the day (the property counts weeks as ISO weeks)
            iso = d.isocalendar()
            return (iso[0], iso[1])
    elif ind == "M":
        m = n
    elif ind == "Q":
        m = n * 3
    elif ind == "S":
        m = n * 6
    elif ind == "W":
        return None  # a week can span two months / years: which one contains it is not settled by the offline sources
    else:
        return None
    return {"A": (y, 1), "S": (y, (m - 1) // 6 + 1), "Q": (y, (m - 1) // 3 + 1), "M": (y, m)}.get(target)


ORDER = "DWMQSA"


def bulk(part, label, comps, rows_in, script, check_row, S=None):
    """run one script over one bulk dataset and check every output row with check_row(row) -> None | text"""
    import pandas as pd
    from vtlengine import run
    from vtlengine.Exceptions import VTLEngineException
    S = S or eng.structures(eng.structure("DS_1", comps))
    df = pd.DataFrame({c["name"]: pd.Series([r[i] for r in rows_in], dtype="object") for i, c in enumerate(comps)})
    part.evaluations += len(rows_in)
    part.hist["bulk:" + label.split(":")[0]] += len(rows_in)
    case = dict(check=label, script=script, rows=len(rows_in), first=rows_in[:2])
    if len(part.samples) < 3:
        part.samples.append(case)
    try:
        res = run(script=script, data_structures=S, datapoints={"DS_1": df})
    except VTLEngineException as e:
        part.fail("vtl_error:%s:%s" % (label, e.args[1] if len(e.args) > 1 else ""), case, str(e)[:300]); return
    except Exception as e:  # noqa
        part.fail("raw:%s:%s" % (type(e).__name__, label), case, "%s: %s" % (type(e).__name__, str(e)[:300])); return
    out = res["R"].data
    nbad, first = 0, None
    if len(out) != len(rows_in):
        part.fail("row_count:%s" % label, case, "%d rows in, %d rows out" % (len(rows_in), len(out))); return
    for rec in out.to_dict("records"):
        msg = check_row({k: eng.norm(v) for k, v in rec.items()})
        if msg:
            nbad += 1
            first = first or (rec, msg)
    if nbad:
        part.fail("wrong:%s" % label, dict(case, row={k: str(v) for k, v in first[0].items()}, n_bad=nbad), "%s (%d of %d rows wrong)" % (first[1], nbad, len(rows_in)))


def work_periods(ind, years):
    warnings.filterwarnings("ignore")
    part = core.Part()
    comps = [eng.comp("Id_1", "Integer", "I"), eng.comp("Me_p", "Time_Period")]
    periods = [(y, n) for y in years for n in numbers(ind, y)]
    rows = [(i, vtl(ind, y, n)) for i, (y, n) in enumerate(periods)]
    part.nontrivial.update("%s:%d:%d" % (ind, y, n) for y, n in periods if (ind == "W" and n >= 52) or (ind == "D" and n >= 365) or n == 1)
    bulk(part, "period_indicator:%s" % ind, comps, rows, "R <- DS_1 [calc x := period_indicator(Me_p)];", lambda r: None if r["x"] == ind else "period_indicator(%s) = %r" % (r["Me_p"], r["x"]))
    bulk(part, "getyear:%s" % ind, comps, rows, "R <- DS_1 [calc x := getyear(Me_p)];", lambda r: None if r["x"] == periods[r["Id_1"]][0] else "getyear(%s) = %r" % (r["Me_p"], r["x"]))
    for tgt in ORDER[ORDER.index(ind) + 1:]:
        if coarser(ind, periods[0][0], periods[0][1], tgt) is None:
            continue
        def chk(r, tgt=tgt):
            y, n = periods[r["Id_1"]]
            cy, cn = coarser(ind, y, n, tgt)
            return None if r["x"] == vtl(tgt, cy, cn) else "time_agg(%s, %s) = %r, calendar %s" % (tgt, r["Me_p"], r["x"], vtl(tgt, cy, cn))
        bulk(part, "time_agg:%s->%s" % (ind, tgt), comps, rows, 'R <- DS_1 [calc x := time_agg("%s", Me_p)];' % tgt, chk)
    # timeshift: every period shifted by +1 and -1 through the dataset-level operator on a time identifier
    comps2 = [eng.comp("Id_t", "Time_Period", "I"), eng.comp("Me_1", "Integer")]
    S2 = eng.structures(eng.structure("DS_1", comps2))
    rows2 = [(vtl(ind, y, n), i) for i, (y, n) in enumerate(periods)]
    for k in (1, -1, 53 if ind in "WD" else 5, -366 if ind == "D" else -7):
        def chk2(r, k=k):
            y, n = periods[r["Me_1"]]
            sy, sn = shift(ind, y, n, k)
            return None if r["Id_t"] == vtl(ind, sy, sn) else "timeshift(%s, %d) = %r, calendar %s" % (vtl(ind, y, n), k, r["Id_t"], vtl(ind, sy, sn))
        bulk(part, "timeshift:%s:%+d" % (ind, k), comps2, rows2, "R <- timeshift(DS_1, %d);" % k, chk2, S=S2)
    return part


def work_dates(years):
    warnings.filterwarnings("ignore")
    part = core.Part()
    comps = [eng.comp("Id_1", "Integer", "I"), eng.comp("Me_d", "Date"), eng.comp("Me_e", "Date")]
    dates = [datetime.date(y, 1, 1) + datetime.timedelta(days=i) for y in years for i in range((datetime.date(y, 12, 31) - datetime.date(y, 1, 1)).days + 1)]
    rows = [(i, d.isoformat(), (d + datetime.timedelta(days=(i % 400) + 1)).isoformat()) for i, d in enumerate(dates)]
    part.nontrivial.update("date:%s" % d.isoformat() for d in dates if (d.month, d.day) in ((2, 28), (2, 29), (12, 31), (1, 1), (3, 1)))
    for fn, f in [("getyear", lambda d: d.year), ("getmonth", lambda d: d.month), ("dayofmonth", lambda d: d.day), ("dayofyear", lambda d: d.timetuple().tm_yday)]:
        bulk(part, "%s:date" % fn, comps, rows, "R <- DS_1 [calc x := %s(Me_d)];" % fn, lambda r, f=f, fn=fn: None if r["x"] == f(dates[r["Id_1"]]) else "%s(%s) = %r" % (fn, r["Me_d"], r["x"]))
    bulk(part, "datediff", comps, rows, "R <- DS_1 [calc x := datediff(Me_d, Me_e)];", lambda r: None if r["x"] == (r["Id_1"] % 400) + 1 else "datediff(%s, %s) = %r" % (r["Me_d"], r["Me_e"], r["x"]))
    def bounds(d, tgt):
        if tgt == "W":
            mon = d - datetime.timedelta(days=d.isoweekday() - 1)
            return mon, mon + datetime.timedelta(days=6)
        m0 = {"A": 1, "S": (d.month - 1) // 6 * 6 + 1, "Q": (d.month - 1) // 3 * 3 + 1, "M": d.month}[tgt]
        m1 = {"A": 12, "S": m0 + 5, "Q": m0 + 2, "M": m0}[tgt]
        return datetime.date(d.year, m0, 1), datetime.date(d.year, m1, calendar.monthrange(d.year, m1)[1])
    for tgt in "ASQMW":
        for which, j in (("first", 0), ("last", 1)):
            def chk_agg(r, tgt=tgt, j=j, which=which):
                w = bounds(dates[r["Id_1"]], tgt)[j].isoformat()
                return None if str(r["x"])[:10] == w else "time_agg(%s, %s, %s) = %r, calendar %s" % (tgt, r["Me_d"], which, r["x"], w)
            bulk(part, "time_agg_date:%s:%s" % (tgt, which), comps, rows, 'R <- DS_1 [calc x := time_agg("%s", Me_d, %s)];' % (tgt, which), chk_agg)
    for k, unit, delta in [(1, "D", 1), (-1, "D", -1), (366, "D", 366), (2, "W", 14)]:
        def chk(r, delta=delta, k=k, unit=unit):
            w = (dates[r["Id_1"]] + datetime.timedelta(days=delta)).isoformat()
            return None if str(r["x"])[:10] == w else "dateadd(%s, %d, %s) = %r, calendar %s" % (r["Me_d"], k, unit, r["x"], w)
        bulk(part, "dateadd:%+d%s" % (k, unit), comps, rows, 'R <- DS_1 [calc x := dateadd(Me_d, %d, "%s")];' % (k, unit), chk)
    return part


def work_series(seed, n):
    """Part 2: generated time series with gaps."""
    warnings.filterwarnings("ignore")
    import hypothesis
    from hypothesis import given, settings, HealthCheck, strategies as st
    from vtlengine import run
    from vtlengine.Exceptions import VTLEngineException
    part = core.Part()
    comps = [eng.comp("Id_1", "String", "I"), eng.comp("Id_t", "Time_Period", "I"), eng.comp("Me_1", "Integer")]
    S = eng.structures(eng.structure("DS_1", comps))

    @st.composite
    def series(draw):
        ind = draw(st.sampled_from("ASQMWD"))
        y = draw(st.sampled_from([1999, 2004, 2015, 2019, 2020, 2021, 2026, 2032]))
        nums = numbers(ind, y)
        start = draw(st.sampled_from([1, len(nums), max(1, len(nums) - 2)]))
        offs = sorted(set(draw(st.lists(st.integers(0, 12), min_size=1, max_size=8))))
        pts = [shift(ind, y, start, o) for o in offs]
        k = draw(st.integers(-60, 60))
        groups = draw(st.lists(st.sampled_from(["a", "b"]), min_size=1, max_size=2, unique=True))
        rows = [{"Id_1": g, "Id_t": vtl(ind, py, pn), "Me_1": draw(st.integers(-5, 9))} for g in groups for (py, pn) in pts]
        return ind, pts, k, rows

    @settings(max_examples=n, database=None, deadline=None, suppress_health_check=list(HealthCheck), phases=[hypothesis.Phase.generate])
    @hypothesis.seed(seed)
    @given(series())
    def prop(c):
        ind, pts, k, rows = c
        crosses = any(shift(ind, y, nn, k)[0] != y for y, nn in pts)
        part.case(core.fingerprint([ind, pts, k]), crosses and ind in "WD", sample=dict(indicator=ind, shift=k, periods=[vtl(ind, *p) for p in pts][:5]) if len(part.samples) < 4 else None, labels=["series", "ind=" + ind] + (["crosses_year"] if crosses else []))
        case = dict(indicator=ind, shift=k, rows=rows)
        def go(script):
            return run(script=script, data_structures=S, datapoints={"DS_1": eng.frame(comps, rows)}, return_only_persistent=False)
        try:
            r = go("A := timeshift(DS_1, %d); B <- timeshift(A, %d); F := flow_to_stock(DS_1); G <- stock_to_flow(F);" % (k, -k))
        except VTLEngineException as e:
            part.fail("series:vtl_error:%s" % (e.args[1] if len(e.args) > 1 else ""), case, str(e)[:200]); return
        except Exception as e:  # noqa
            part.fail("series:raw:%s" % type(e).__name__, case, "%s: %s" % (type(e).__name__, str(e)[:200])); return
        exp = sorted((row["Id_1"], vtl(ind, *shift(ind, *parse(row["Id_t"], ind), k)), row["Me_1"]) for row in rows)
        got = sorted((a, b, int(c_)) for a, b, c_ in r["A"].data[["Id_1", "Id_t", "Me_1"]].itertuples(index=False, name=None))
        if got != exp:
            bad = [x for x in got if x not in exp][:1] or [("missing",)]
            part.fail("timeshift:wrong:%s:%s" % (ind, "crossing_year" if crosses else "same_year"), case, "timeshift by %d: got %r, calendar %r" % (k, bad[0], [x for x in exp if x not in got][:1]))
            return
        if len({(a, b) for a, b, _ in got}) != len(got):
            part.fail("timeshift:duplicate_identifiers:%s" % ind, case, "two datapoints with the same identifiers after timeshift"); return
        back = sorted((a, b, int(c_)) for a, b, c_ in r["B"].data[["Id_1", "Id_t", "Me_1"]].itertuples(index=False, name=None))
        orig = sorted((row["Id_1"], row["Id_t"], row["Me_1"]) for row in rows)
        if back != orig:
            part.fail("timeshift:not_invertible:%s" % ind, case, "shift(%d) then shift(%d) gives %r, original %r" % (k, -k, back[:2], orig[:2])); return
        # flow_to_stock = running sum in period order per group; stock_to_flow inverse
        exp_f = []
        for g in sorted({row["Id_1"] for row in rows}):
            acc = 0
            for row in sorted((x for x in rows if x["Id_1"] == g), key=lambda x: parse(x["Id_t"], ind)):
                acc += row["Me_1"]
                exp_f.append((g, row["Id_t"], acc))
        got_f = sorted((a, b, int(c_)) for a, b, c_ in r["F"].data[["Id_1", "Id_t", "Me_1"]].itertuples(index=False, name=None))
        if got_f != sorted(exp_f):
            part.fail("flow_to_stock:wrong:%s" % ind, case, "flow_to_stock %r, running sums %r" % (got_f[:3], sorted(exp_f)[:3])); return
        got_g = sorted((a, b, int(c_)) for a, b, c_ in r["G"].data[["Id_1", "Id_t", "Me_1"]].itertuples(index=False, name=None))
        if got_g != orig:
            part.fail("stock_to_flow:not_inverse:%s" % ind, case, "stock_to_flow(flow_to_stock(x)) = %r, x = %r" % (got_g[:3], orig[:3]))
    prop()
    return part


def parse(text, ind):
    if ind == "A":
        return int(text[:4]), 1
    return int(text[:4]), int(text[5:])


def _dispatch(fname, args):
    return globals()[fname](*args)


def run(ctx):
    y0, y1 = (1996, 2032) if ctx.quick else (1900, 2100)
    # quick: a contiguous range plus the century years (1900 and 2100 are not leap years, 2000 is) and their neighbours
    years = sorted(set(range(y0, y1 + 1)) | {1900, 1901, 1999, 2000, 2001, 2099, 2100})
    ctx.rule = ("Part 1 EXHAUSTIVE for years %d-%d (plus 1900, 1901, 1999-2001, 2099, 2100): every period of every indicator (period_indicator, getyear, time_agg to each coarser indicator, timeshift by +-1 and a large shift) and every date "
                "(getyear, getmonth, dayofmonth, dayofyear, time_agg to A/S/Q/M/W first and last, datediff, dateadd by days/weeks), evaluated in bulk through run(); Part 2: Hypothesis time series with gaps, shifts -60..60, inverse and injectivity of timeshift, "
                "flow_to_stock / stock_to_flow; non-trivial = period at a year boundary (first / last week or day), leap-day neighbourhood dates, series whose shift crosses a year boundary for W / D" % (y0, y1))
    ctx.exhaustive = True
    jobs = [("work_periods", (ind, years)) for ind in "DWMQSA"] + [("work_dates", (years,))]
    jobs += [("work_series", (ctx.seed * 1009 + k, 30 if ctx.quick else 800)) for k in range(9)]
    ctx.merge(core.pmap("checks.c08", "_dispatch", jobs, procs=16))
    ctx.extra.update(year_range=[y0, y1])
    ctx.assumptions = ["getmonth/dayofmonth/dayofyear are checked on dates only; time_agg is not checked from weeks to coarser periods (a week can span two months / years); a day or date belongs to the ISO 8601 week containing it (ISO week year)",
                       "dateadd is checked for day and week units only (month-end clamping of month/year units is not documented); fill_time_series is exercised by C33 only"]


def replay(ctx, path):
    import json
    c = json.load(open(path))["case"]
    print("replay: re-running the quick tier of C08")
    run(ctx)
    key = json.load(open(path))["key"]
    print("REPRODUCED" if key in ctx.part.failures else "not reproduced")
    return 1 if key in ctx.part.failures else 0
