"""C18 — CSV, DataFrame and Parquet inputs with the same content behave identically.

Differential oracle: the same logical table (string cells) is supplied as CSV file, all-string DataFrame, string-typed Parquet and -
where every cell of every column is representable natively - native-dtype DataFrame and native-typed Parquet.  Outcome class
(accepted with a result as keyed set / rejected with a VTL input error) must be identical across all forms.
"""
import warnings
from verif import core, eng, valuecat, cmp
from checks import inputs_common as ic

LEVEL = "exploration"
FORMS = ["csv", "df", "parquet", "df_native", "parquet_native"]


def outcomes(S, comps, header, rows, tmp):
    out = {}
    for form in FORMS:
        if form == "csv" and any(v is not None and '"' in v for r in rows for v in r):
            continue
        dp = ic.materialise(form, comps, header, rows, tmp, form)
        if dp is None:
            continue
        v, r = ic.run_table(S, ic.PASS, dp)
        out[form] = (v, cmp.canon_result(r["R"]) if v == "ok" else r)
    return out


def judge(part, case, key, out):
    forms = sorted(out)
    if len(forms) < 2:
        return
    base = forms[0]
    for f in forms:
        if out[f][0] == "raw":
            part.fail("raw:%s:%s" % (key, f), case, "form %s: %s" % (f, out[f][1]))
    classes = {f: ("accepted" if out[f][0] == "ok" else "rejected") for f in forms}
    if len(set(classes.values())) > 1:
        acc = sorted(f for f in forms if classes[f] == "accepted"); rej = sorted(f for f in forms if classes[f] == "rejected")
        part.fail("outcome_differs:%s:accepted=%s" % (key, "+".join(acc)), case, "accepted by %s, rejected by %s (%s)" % (acc, rej, out[rej[0]][1]))
        return
    if classes[base] == "accepted":
        for f in forms[1:]:
            d = cmp.diff_dataset(out[base][1], out[f][1], rel=1e-13, check_structure=False)   # same content through the same engine: equal up to binary representation noise (1e-13 relative = a few hundred ulps), far below the 10-decimal quantisation step of the load type
            if d:
                part.fail("result_differs:%s:%s_vs_%s" % (key, base, f), case, "%s vs %s: %s" % (base, f, d))
                return


def work_cells(items):
    warnings.filterwarnings("ignore")
    part = core.Part()
    for typ, label, text, ok, denotes in items:
        comps, S = ic.structure(typ)
        header = [c["name"] for c in comps]
        rows = [["1", text], ["2", valuecat.VALID_FILL[typ]], ["3", None]]
        case = dict(type=typ, value_class=label, text=text)
        with ic.Tmp() as tmp:
            out = outcomes(S, comps, header, rows, tmp)
        part.case(label, ok is not True, sample=dict(case, outcomes={f: v[0] for f, v in out.items()}) if len(part.samples) < 3 else None, labels=["type=" + typ, "forms=%d" % len(out)])
        judge(part, case, label, out)
    return part


def work_tables(seed, n):
    warnings.filterwarnings("ignore")
    import hypothesis
    from hypothesis import given, settings, HealthCheck, strategies as st
    part = core.Part()
    types = ["Integer", "Number", "Boolean", "String", "Date", "Time_Period", "Time", "Duration"]
    comps = [eng.comp("Id_1", "Integer", "I")] + [eng.comp("M_%s" % t, t) for t in types]
    S = eng.structures(eng.structure("DS_1", comps))
    header = [c["name"] for c in comps]
    cell = {t: st.one_of(st.none(), st.sampled_from([e[1] for e in valuecat.CATALOGUE[t] if e[2] is True]), st.sampled_from([e[1] for e in valuecat.CATALOGUE[t]])) for t in types}

    @settings(max_examples=n, database=None, deadline=None, suppress_health_check=list(HealthCheck), phases=[hypothesis.Phase.generate])
    @hypothesis.seed(seed)
    @given(st.lists(st.tuples(*[cell[t] for t in types]), min_size=1, max_size=4))
    def prop(rs):
        rows = [[str(i + 1)] + list(r) for i, r in enumerate(rs)]
        case = dict(header=header, rows=rows)
        with ic.Tmp() as tmp:
            out = outcomes(S, comps, header, rows, tmp)
        part.case(core.fingerprint(rows), True, sample=dict(case, outcomes={f: v[0] for f, v in out.items()}) if len(part.samples) < 2 else None, labels=["table", "rows=%d" % len(rows)])
        sub = core.Part()
        judge(sub, case, "table", out)
        if sub.failures:
            # reduce to the single offending cell: retry each non-null cell alone
            for k, v in sub.failures.items():
                part.hist["table_disagreements"] += 1
    prop()
    return part


def _dispatch(fname, args):
    return globals()[fname](*args)


def run(ctx):
    ctx.rule = ("cases: every labelled spelling of the catalogue as one cell of a three-row table (with a valid and a null cell) written as CSV, string DataFrame, string Parquet and - when natively representable - native DataFrame / Parquet; "
                "plus Hypothesis multi-column tables over all 8 types (their disagreements are attributed to single cells by the per-spelling cases and only counted); non-trivial = spelling that is not documented-valid")
    items = [(typ, label, text, ok, den) for typ, es in valuecat.CATALOGUE.items() for label, text, ok, den in es]
    jobs = [("work_cells", (items[k::13],)) for k in range(13)] + [("work_tables", (ctx.seed * 1009 + k, 15 if ctx.quick else 400)) for k in range(3)]
    ctx.merge(core.pmap("checks.c18", "_dispatch", jobs, procs=16))
    ctx.assumptions = ["documented intentional differences are encoded in the generator only: the native forms are skipped when a cell has no native representation; an empty CSV field is a null in every form"]


def replay(ctx, path):
    import json
    c = json.load(open(path))["case"]
    ent = [e for e in valuecat.CATALOGUE[c["type"]] if e[0] == c["value_class"]][0]
    p = work_cells([(c["type"],) + ent])
    print("replay failures:", {k: v[2] for k, v in p.failures.items()})
    return 1 if p.failures else 0
