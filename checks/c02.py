"""C02 — clause operators (filter, calc, keep, drop, rename, sub) behave as specified.

Differential oracle (refvtl) over Hypothesis-generated clause chains of length 1-4 applied to inputs and to results of
dataset-level operators, plus the frame condition checked on the engine output alone: a chain made only of
filter/keep/drop/rename leaves every surviving component's values equal to the input values.
"""
import warnings
from verif import core, gen, diffrun
from checks import c01

LEVEL = "exploration"


def case_strategy():
    from hypothesis import strategies as st

    @st.composite
    def build(draw):
        ci = draw(gen.case_inputs(mixed=True, n_datasets=draw(st.integers(1, 2))))
        # clauses over the result of a dataset-level operator hit the known finding C01-rename-nested family (inner nodes
        # take measure names from the assignment's output structure); the property's scope is clauses over datasets,
        # other clauses and join results, so chains start from an input dataset (joins: see C04).
        base = ("ds", draw(st.sampled_from(sorted(ci["structs"]))))
        ir = draw(gen.clause_chain(base, ci["structs"], draw(st.integers(1, 4))))
        return ci, ir
    return build()


def chain_len(ir):
    n = 0
    while isinstance(ir, tuple) and ir[0] == "clause":
        n += 1
        ir = ir[2]
    return n


def work(seed, n):
    warnings.filterwarnings("ignore")
    import hypothesis
    from hypothesis import given, settings, HealthCheck
    part = core.Part()

    @settings(max_examples=n, database=None, deadline=None, suppress_health_check=list(HealthCheck), phases=[hypothesis.Phase.generate])
    @hypothesis.seed(seed)
    @given(case_strategy())
    def prop(c):
        ci, ir = c
        key, what, facts = diffrun.run_case(ci, ir)
        if key == "unsupported":
            part.hist["unsupported_by_reference"] += 1
            return
        ln = chain_len(ir)
        nt = ln >= 2 or "[calc]" in facts["ops"]
        part.case(core.fingerprint([ci, facts["script"]]), nt, sample=dict(script=facts["script"], rows={k: v[:3] for k, v in ci["rows"].items()}) if nt and len(part.samples) < 2 else None,
                  labels=["chain=%d" % ln, "ref=" + str(facts.get("ref"))] + [o for o in facts["ops"] if o.startswith("[")])
        if key:
            if key not in part.failures:
                ci2, ir2 = diffrun.reduce_case(ci, ir, key.split(":")[0], budget=30)
                k2, w2, f2 = diffrun.run_case(ci2, ir2)
                if k2 and k2.split(":")[0] == key.split(":")[0]:
                    ci, ir, key, what, facts = ci2, ir2, k2, w2, f2
            part.fail(key, dict(inputs=ci, script=facts["script"], ir=repr(ir)), what)
    prop()
    return part


def run(ctx):
    ctx.rule = ("cases: Hypothesis-generated clause chains of length 1-4 (filter with true/false/null conditions, calc adding/overwriting measures and attributes, keep, drop, rename, sub) over mixed-type datasets "
                "; oracle = refvtl; non-trivial = chain length >= 2 or a calc; distinct by (inputs, script)")
    n = 60 if ctx.quick else 2500
    ctx.merge(core.pmap("checks.c02", "work", [(ctx.seed * 1009 + k, n) for k in range(16)], procs=16))
    ctx.assumptions = ["same reference interpreter and exclusions as C01"]


replay = c01.replay
