"""C05 — set operators match datapoints by identifiers across all operands.

Differential oracle (refvtl): union = first operand having the key; intersect = keys present in EVERY operand (measures from the first);
setdiff; symdiff = keys in exactly one operand.  Hypothesis-generated operand lists (2-4 structurally equal datasets, arbitrary key overlap,
conflicting measure values, operands that are filter expressions).
"""
import warnings
from verif import core, gen, diffrun
from checks import c01

LEVEL = "exploration"


def work(seed, n, excl):
    warnings.filterwarnings("ignore")
    import hypothesis
    from hypothesis import given, settings, HealthCheck
    part = core.Part()

    @settings(max_examples=n, database=None, deadline=None, suppress_health_check=list(HealthCheck), phases=[hypothesis.Phase.generate])
    @hypothesis.seed(seed)
    @given(gen.setop_case())
    def prop(c):
        ci, ir = c
        op, operands = ir[1], ir[2]
        if op == "intersect" and len(operands) >= 3 and "intersect_3plus" in excl:
            part.excluded["intersect_3plus"] += 1
            ir = ("setop", op, operands[:2])
            operands = ir[2]
        key, what, facts = diffrun.run_case(ci, ir)
        if key == "unsupported":
            part.hist["unsupported_by_reference"] += 1
            return
        ids = [i for i, (r, t) in ci["structs"]["DS_1"].items() if r == "I"]
        keysets = [set(tuple(r[i] for i in ids) for r in ci["rows"][n]) for n in sorted(ci["rows"])]
        shared = [k for k in set().union(*keysets) if sum(k in s for s in keysets) >= 2] if keysets else []
        nt = bool(shared)
        part.case(core.fingerprint([ci, facts["script"]]), nt, sample=dict(script=facts["script"], rows={k: v[:3] for k, v in ci["rows"].items()}) if nt and len(part.samples) < 2 else None,
                  labels=["op=" + op, "operands=%d" % len(operands), "family=" + ci["family"]])
        if key:
            nested = sorted({o[1] for o in operands if o[0] == "setop"})
            head = ":".join(key.split(":")[:2]) if key.startswith("raw:") else key.split(":")[0]
            key = head + ":" + op + ":operands=%d" % len(operands) + (":nested=" + "+".join(nested) if nested else "")
            part.fail(key, dict(inputs=ci, script=facts["script"], ir=repr(ir)), what)
    prop()
    return part


def probe_known():
    warnings.filterwarnings("ignore")
    part = core.Part()
    comps = {"Id_1": ("I", "Integer"), "Me_1": ("M", "Number")}
    ci = dict(structs={"DS_1": comps, "DS_2": comps, "DS_3": comps}, family="num",
              rows={"DS_1": [{"Id_1": "1", "Me_1": "1"}, {"Id_1": "2", "Me_1": "2"}], "DS_2": [{"Id_1": "1", "Me_1": "7"}, {"Id_1": "2", "Me_1": "7"}], "DS_3": [{"Id_1": "2", "Me_1": "9"}]})
    ir = ("setop", "intersect", [("ds", "DS_1"), ("ds", "DS_2"), ("ds", "DS_3")])
    key, what, facts = diffrun.run_case(ci, ir)
    part.case("probe:intersect3", True, labels=["known_finding_probe"])
    if key:
        part.fail(key.split(":")[0] + ":intersect:operands=3", dict(inputs=ci, script=facts["script"], ir=repr(ir)), what)
    ir = ("setop", "union", [("setop", "union", [("ds", "DS_2"), ("ds", "DS_1")]), ("setop", "union", [("ds", "DS_2"), ("ds", "DS_1")])])
    key, what, facts = diffrun.run_case(ci, ir)
    part.case("probe:union_of_identical_unions", True, labels=["known_finding_probe"])
    if key:
        head = ":".join(key.split(":")[:2]) if key.startswith("raw:") else key.split(":")[0]
        part.fail(head + ":union:operands=2:nested=union", dict(inputs=ci, script=facts["script"], ir=repr(ir)), what)
    return part


def run(ctx):
    ctx.rule = ("cases: Hypothesis-generated set expressions (union/intersect with 2-4 operands, setdiff, symdiff) over structurally equal datasets of 0-6 rows with arbitrary key overlap and conflicting "
                "measures, some operands being filter expressions; oracle = refvtl; non-trivial = at least one key present in >=2 operands; distinct by (inputs, script)")
    excl = sorted(ctx.excluded_keys())
    n = 60 if ctx.quick else 2500
    ctx.merge(core.pmap("checks.c05", "work", [(ctx.seed * 1009 + k, n, excl) for k in range(16)], procs=16))
    ctx.merge([probe_known()])
    ctx.assumptions = ["inputs of at most a few rows; first-occurrence selection over large multi-threaded inputs is exercised by C15"]


replay = c01.replay
