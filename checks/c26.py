"""C26 — every VTL error raised carries a catalogued code and renders its message.

Part A (exhaustive, static): every call of a coded VTL exception class with a literal code in
/repo/src/vtlengine/**/*.py of the CURRENT tree: code in catalogue, message placeholders
covered by the literal keyword names (unless **expr is passed).  SQL error('VTL ...') strings
must be mapped by _map_query_error to a catalogued, constructible error.
Part B (generated): every static site's exception is constructed with Hypothesis-generated
values for its keyword names: must not raise, args[1] == code.
Part C (generated): every catalogue entry is constructible with all its placeholders bound
(catalogue well-formedness: no positional / malformed fields).
"""
import ast, glob, os, re, string
from verif import core

LEVEL = "exploration"
CLASSES = {"SemanticError", "RunTimeError", "DataLoadError", "InputValidationException"}
NON_PLACEHOLDER_KW = {"comp_code", "code", "lino", "colno", "message"}


def placeholders(msg):
    out, bad = [], []
    try:
        for _, field, spec, conv in string.Formatter().parse(msg):
            if field is None:
                continue
            root = re.split(r"[.\[]", field, maxsplit=1)[0]
            if root == "" or root.isdigit():
                bad.append(field)
            else:
                out.append((root, spec or "", conv))
    except ValueError as e:
        bad.append("malformed: %s" % e)
    return out, bad


def sites(repo):
    src = os.path.join(repo, "src", "vtlengine")
    for path in sorted(glob.glob(os.path.join(src, "**", "*.py"), recursive=True)):
        rel = os.path.relpath(path, src)
        try:
            tree = ast.parse(open(path, encoding="utf-8").read())
        except SyntaxError as e:
            raise core.HarnessError("cannot parse %s: %s" % (path, e))
        # enclosing function of every call, to resolve **name to a dict literal assigned in the same function
        owner = {}
        for fn in ast.walk(tree):
            if isinstance(fn, (ast.FunctionDef, ast.AsyncFunctionDef)):
                for sub in ast.walk(fn):
                    if isinstance(sub, ast.Call):
                        owner[id(sub)] = fn
        for node in ast.walk(tree):
            if not isinstance(node, ast.Call):
                continue
            f = node.func
            name = f.id if isinstance(f, ast.Name) else f.attr if isinstance(f, ast.Attribute) else None
            if name not in CLASSES:
                continue
            code_node = None
            if name == "InputValidationException":
                for kw in node.keywords:
                    if kw.arg == "code":
                        code_node = kw.value
                if code_node is None:
                    continue  # plain-message form, no code
            else:
                if node.args:
                    code_node = node.args[0]
                for kw in node.keywords:
                    if kw.arg == "code":
                        code_node = kw.value
            kws = [kw.arg for kw in node.keywords if kw.arg is not None]
            star = False
            for kw in node.keywords:
                if kw.arg is None:
                    keys = resolve_splat(kw.value, owner.get(id(node)))
                    if keys is None:
                        star = True
                    else:
                        kws += keys
            if isinstance(code_node, ast.Constant) and isinstance(code_node.value, str):
                yield dict(file=rel, line=node.lineno, cls=name, code=code_node.value, kws=kws, star=star, dynamic=False)
            else:
                yield dict(file=rel, line=node.lineno, cls=name, code=None, kws=kws, star=star, dynamic=True)


def resolve_splat(value, fn):
    """keys of `**value` when value is a dict literal / dict(k=...) call, or a name bound once to one in the enclosing function"""
    def keys_of(v):
        if isinstance(v, ast.Dict) and all(isinstance(k, ast.Constant) and isinstance(k.value, str) for k in v.keys):
            return [k.value for k in v.keys]
        if isinstance(v, ast.Call) and isinstance(v.func, ast.Name) and v.func.id == "dict" and not v.args and all(k.arg for k in v.keywords):
            return [k.arg for k in v.keywords]
        return None
    direct = keys_of(value)
    if direct is not None:
        return direct
    if isinstance(value, ast.Name) and fn is not None:
        bound = [n.value for n in ast.walk(fn) if isinstance(n, ast.Assign) and any(isinstance(t, ast.Name) and t.id == value.id for t in n.targets)]
        bound += [n.value for n in ast.walk(fn) if isinstance(n, ast.AnnAssign) and isinstance(n.target, ast.Name) and n.target.id == value.id and n.value is not None]
        mutated = any(isinstance(n, ast.Subscript) and isinstance(n.value, ast.Name) and n.value.id == value.id and isinstance(n.ctx, ast.Store) for n in ast.walk(fn))
        if len(bound) == 1 and not mutated:
            return keys_of(bound[0])
    return None


def sql_errors(repo):
    out = []
    d = os.path.join(repo, "src", "vtlengine", "duckdb_transpiler", "sql")
    for path in sorted(glob.glob(os.path.join(d, "*.sql"))):
        txt = open(path, encoding="utf-8").read()
        for m in re.finditer(r"error\(\s*'((?:[^']|'')*)'", txt):
            out.append((os.path.basename(path), txt.count("\n", 0, m.start()) + 1, m.group(1)))
    # error('...') strings built in Python sources
    src = os.path.join(repo, "src", "vtlengine")
    for path in sorted(glob.glob(os.path.join(src, "**", "*.py"), recursive=True)):
        txt = open(path, encoding="utf-8").read()
        for m in re.finditer(r"error\(\s*'((?:VTL|vtl)[^']*)'", txt):
            out.append((os.path.relpath(path, src), txt.count("\n", 0, m.start()) + 1, m.group(1)))
    return out


def run(ctx):
    import hypothesis
    from hypothesis import given, settings, strategies as st, HealthCheck
    import vtlengine.Exceptions as E
    from vtlengine.Exceptions.messages import centralised_messages as CAT
    ctx.rule = ("static enumeration (python ast) of every call of SemanticError/RunTimeError/DataLoadError/"
                "InputValidationException(code=) in src/vtlengine of the current tree; a case is one (file,line,code) site; "
                "non-trivial = site with a literal code (checked: code in catalogue, placeholders filled, constructible with "
                "Hypothesis-generated keyword values); plus every catalogue entry and every SQL error('VTL…') string")
    ctx.exhaustive = True
    part = ctx.part
    all_sites = list(sites(core.REPO))
    dynamic = [s for s in all_sites if s["dynamic"]]
    static = [s for s in all_sites if not s["dynamic"]]
    classes = {n: getattr(E, n) for n in CLASSES}

    val = st.one_of(
        st.text(max_size=12), st.sampled_from(["{x}", "{", "}", "{}", "{0}", "%s", "a{b}c", "ünï", ""]),
        st.integers(), st.floats(allow_nan=True), st.none(), st.booleans(),
        st.lists(st.text(max_size=4), max_size=3), st.builds(lambda s: os.path.join("/tmp", s), st.text("abc", max_size=4)),
        st.builds(lambda s: type("Obj", (), {"__str__": lambda self: "{" + s + "}"})(), st.text("abc", max_size=3)),
    )

    def set_output(name):
        if hasattr(E, "set_dataset_output"):
            E.set_dataset_output(name)
        else:
            E.dataset_output = name

    for s in static:
        key_site = "%s:%d:%s" % (s["file"], s["line"], s["code"])
        labels = [s["cls"]]
        entry = CAT.get(s["code"])
        part.case(key_site, True, sample=s if len(part.samples) < 4 else None, labels=labels)
        if entry is None:
            part.fail("site:%s:%s:uncatalogued" % (s["file"], s["code"]), s, "code %s raised at %s:%d is not in centralised_messages" % (s["code"], s["file"], s["line"]))
            continue
        ph, bad = placeholders(entry["message"])
        names = {p[0] for p in ph}
        if not s["star"]:
            missing = sorted(names - set(s["kws"]))
            if missing:
                part.fail("site:%s:%s:missing:%s" % (s["file"], s["code"], ",".join(missing)), s,
                          "raise site %s:%d passes %s but message of %s needs %s" % (s["file"], s["line"], s["kws"], s["code"], sorted(names)))
                continue
        # Part B: construct with generated values for the site's keyword names
        if any(spec or conv for _, spec, conv in ph) or bad:
            part.hist["partB_skipped_format_spec"] += 1
            continue
        kwnames = sorted((set(s["kws"]) | (names if s["star"] else set())) - NON_PLACEHOLDER_KW)
        cls = classes[s["cls"]]
        errs = []

        @settings(max_examples=12 if ctx.quick else 100, database=None, deadline=None, derandomize=False,
                  suppress_health_check=list(HealthCheck), phases=[hypothesis.Phase.generate])
        @hypothesis.seed(ctx.seed * 7919 + hash(key_site) % 100000)
        @given(st.fixed_dictionaries({k: val for k in kwnames}), st.sampled_from([None, None, "R", "DS{r}", "{}", "a}b", "{0}", "%s"]))
        def prop(kw, outname):
            part.hist["partB_constructions"] += 1
            set_output(outname)   # the output Dataset name the interpreter appends to messages while a statement is analysed
            try:
                if s["cls"] == "InputValidationException":
                    e = cls(code=s["code"], **kw)
                else:
                    e = cls(s["code"], **kw)
                if e.args[1] != s["code"]:
                    errs.append(("args[1]=%r" % (e.args[1],), kw))
                str(e)
            except Exception as ex:  # noqa
                errs.append(("%s: %s (output name %r)" % (type(ex).__name__, ex, outname), kw))
            finally:
                set_output(None)
        prop()
        if errs:
            part.fail("site:%s:%s:construct" % (s["file"], s["code"]), dict(site=s, kwargs=repr(errs[0][1])), errs[0][0])

    # Part C: catalogue well-formedness
    for code, entry in sorted(CAT.items()):
        ph, bad = placeholders(entry.get("message", ""))
        part.case("cat:" + code, True, labels=["catalogue_entry"])
        if "message" not in entry or bad:
            part.fail("catalogue:%s:malformed" % code, dict(code=code, entry=entry), "catalogue entry has positional/malformed fields %s" % bad)
            continue
        try:
            E.SemanticError(code, **{p[0]: 1 for p in ph})
        except Exception as ex:  # noqa
            part.fail("catalogue:%s:unrenderable" % code, dict(code=code), "%s: %s" % (type(ex).__name__, ex))

    # SQL error strings -> _map_query_error
    import duckdb
    from vtlengine.duckdb_transpiler.io._execution import _map_query_error
    sqls = sql_errors(core.REPO)
    for fname, line, text in sqls:
        part.case("sql:%s:%d" % (fname, line), True, labels=["sql_error_string"],
                  sample=dict(sql_error=text, file=fname, line=line) if part.hist["sql_error_string"] < 2 else None)
        m = re.search(r"(\d-\d+-\d+(?:-\d+)?)", text)
        if m and m.group(1) not in CAT:
            part.fail("sql:%s:%s:uncatalogued" % (fname, m.group(1)), dict(file=fname, line=line, text=text),
                      "SQL error() string carries code %s which is not in centralised_messages" % m.group(1))
            continue
        err = duckdb.InvalidInputException("Invalid Input Error: " + text + "X vs Y")
        try:
            mapped = _map_query_error(err, "SELECT 1")
        except Exception as ex:  # noqa
            part.fail("sql:%s:%s:mapper_raises" % (fname, slugtext(text)), dict(file=fname, line=line, text=text), "%s: %s" % (type(ex).__name__, ex))
            continue
        if not isinstance(mapped, E.VTLEngineException):
            part.hist["sql_string_not_mapped_by__map_query_error(C32 matter)"] += 1
        elif len(mapped.args) < 2 or mapped.args[1] not in CAT:
            part.fail("sql:%s:%s:badcode" % (fname, slugtext(text)), dict(file=fname, line=line, text=text), "mapped to uncatalogued code")

    # Dynamic probes: scripts that drive the real code into raise sites (regressions of fixed findings)
    from vtlengine import semantic_analysis
    from verif.eng import comp, structure, structures
    C = [comp("Id_1", "Integer", "I"), comp("Me_1", "Number"), comp("Me_2", "Number")]
    S = structures(structure("DS_1", C), structure("DS_2", C))
    for script, code in [("DS_r <- inner_join(DS_1 as Me_1, DS_2 as d2);", "1-3-1"),
                         ("DS_r <- sum(DS_1 group by Id_9 having avg(Me_1) > 1);", "1-1-2-4")]:
        part.case("probe:" + script, True, labels=["dynamic_probe"])
        try:
            semantic_analysis(script, S)
            got = "no error"
        except E.VTLEngineException as ex:
            got = ex.args[1] if len(ex.args) > 1 else "VTL error without code"
        except Exception as ex:  # noqa
            got = "%s: %s" % (type(ex).__name__, ex)
        if got != code:
            part.fail("probe:%s" % code, dict(script=script, structures=S), "expected SemanticError %s, got %s" % (code, got))
    # erroneous statements whose (quoted) result names contain format metacharacters, through the public API
    from vtlengine import run as vrun
    import pandas as pd
    for name in ["R", "'DS{r}'", "'DS{}'", "'a}b'", "'{0}'", "'x%s'", "'{Me_1}'"]:
        for body in ["DS_1 + DS_9", "DS_1 [calc Me_9 := Me_7 + 1]", "DS_1 [keep Me_7]", "inner_join(DS_1 as a, DS_2 as a)", "cast(DS_1, boolean)", "DS_1 [filter Me_1 / 0 > 1]"]:
            script = "%s <- %s;" % (name, body)
            part.case("dynamic:" + script, "{" in name or "}" in name or "%" in name, labels=["dynamic_api"])
            for api in ("semantic_analysis", "run"):
                try:
                    if api == "run":
                        vrun(script=script, data_structures=S, datapoints={n: pd.DataFrame({"Id_1": [1, 2], "Me_1": [1.0, 2.0], "Me_2": [0.0, 1.0]}) for n in ("DS_1", "DS_2")})
                    else:
                        semantic_analysis(script, S)
                except E.VTLEngineException as ex:
                    if len(ex.args) > 1 and ex.args[1] not in CAT:
                        part.fail("dynamic:uncatalogued:%s" % ex.args[1], dict(script=script, api=api), "error code %r not in catalogue" % (ex.args[1],))
                except Exception as ex:  # noqa
                    from verif import eng as _eng
                    if not _eng.innermost_frame(ex).startswith("Exceptions/"):
                        part.hist["dynamic_api:plain_exception_not_from_error_construction"] += 1   # not a coded VTL error: outside this property
                        continue
                    part.fail("dynamic:%s:%s" % (type(ex).__name__, body.split("(")[0].split()[-1] if "(" in body else body.split()[1].strip("[")), dict(script=script, api=api),
                              "%s raised %s: %s for a statement named %s" % (api, type(ex).__name__, str(ex)[:200], name))
    ctx.extra.update(static_sites=len(static), dynamic_sites=len(dynamic), catalogue_entries=len(CAT), sql_error_strings=len(sqls),
                     dynamic_site_list=["%s:%d" % (s["file"], s["line"]) for s in dynamic][:20])
    ctx.assumptions = ["sites with computed codes or **kwargs are counted (dynamic_sites) but their placeholders are not asserted statically",
                       "SQL error() strings are fed to _map_query_error wrapped in duckdb.InvalidInputException with the literal prefix only"]


def slugtext(t):
    return re.sub(r"[^A-Za-z0-9]+", "_", t)[:40]


def replay(ctx, path):
    import json
    case = json.load(open(path))
    print("replay: re-running the full static enumeration (cheap); looking for key", case["key"])
    run(ctx)
    hit = case["key"] in ctx.part.failures
    print("REPRODUCED" if hit else "not reproduced")
    return 1 if hit else 0
