"""C12 — results do not depend on the textual order of statements.

Metamorphic oracle: for every permutation p of the top-level statements of a valid script,
semantic_analysis(p(s)) structures == semantic_analysis(s) and run(p(s)) == run(s) (keyed sets).
Negative part: generated dependency cycles => SemanticError 1-3-2-3 in every order; a name assigned
twice => SemanticError 1-2-2 in every order.
Statements are cut at the boundaries reported by the parse tree (never by splitting on ';').
"""
import itertools, math, re, warnings
from verif import core, corpus, cmp, eng

LEVEL = "exploration"


def split_statements(script):
    """-> list of statement texts (each including its terminating ';'), or None if unparseable."""
    from vtlengine.AST.Grammar._cpp_parser import vtl_cpp_parser as P
    text = script + "\n"
    root, comments, error, _ = P.parse_detached(text)
    if error is not None or root is None:
        return None
    lines = text.split("\n")
    offs = [0]
    for l in lines:
        offs.append(offs[-1] + len(l) + 1)
    def pos(line, col):
        return offs[line - 1] + col
    out, cur_start = [], None
    for ch in root._children:
        if ch.is_terminal:
            if ch.text == ";" and cur_start is not None:
                out.append(text[cur_start:pos(ch.line, ch.column) + 1])
                cur_start = None
        else:
            if cur_start is None:
                cur_start = pos(ch._pos[0], ch._pos[1])
    return out


def perms(n, tier_quick, seed_rng):
    idx = list(range(n))
    if n <= 1:
        return []
    if (n <= 3) or (not tier_quick and n <= 6):
        return [p for p in itertools.permutations(idx) if list(p) != idx]
    out = {tuple(reversed(idx)), tuple(idx[1:] + idx[:1]), tuple(idx[-1:] + idx[:-1])}
    want = 4 if tier_quick else 40
    tries = 0
    while len(out) < want and tries < 200:
        tries += 1
        p = list(idx)
        seed_rng.shuffle(p)
        if p != idx:
            out.add(tuple(p))
    return sorted(out)


def sa_canon(res):
    return {k: cmp.canon_result(v) for k, v in res.items()}


def outcome(fn, *a, **kw):
    from vtlengine.Exceptions import VTLEngineException
    try:
        return ("ok", fn(*a, **kw))
    except VTLEngineException as e:
        return ("vtl", e.args[1] if len(e.args) > 1 else type(e).__name__)
    except Exception as e:  # noqa
        return ("raw", "%s: %s" % (type(e).__name__, str(e)[:120]))


def check_case(part, src, stmts, mk_run, mk_sa, quick, rng, labels):
    """stmts: statement texts in a reference order; every tested order (reference + permutations) must give the
    same outcome.  A script is valid iff SOME tested order is accepted; then every order must be accepted."""
    from vtlengine import run, semantic_analysis
    idx = tuple(range(len(stmts)))
    orders = [idx] + [tuple(p) for p in perms(len(stmts), quick, rng)]
    outs = []
    for p in orders:
        script = "\n".join(stmts[i] for i in p)
        o_sa = outcome(lambda: sa_canon(semantic_analysis(**mk_sa(script))))
        o_run = outcome(lambda: cmp.canon_results(run(**mk_run(script))))
        outs.append((p, o_sa, o_run))
        part.hist["orders_run"] += 1
    ok = [o for o in outs if o[1][0] == "ok" and o[2][0] == "ok"]
    if not ok:
        part.hist["no_order_valid"] += 1
        return
    nt = len(stmts) >= 3 and len(orders) > 1
    part.case(core.fingerprint([src, stmts]), nt, sample=dict(source=src, statements=stmts[:6]) if nt and len(part.samples) < 3 else None,
              labels=labels + ["n=%d" % min(len(stmts), 9)])
    ref = ok[0]
    for p, o_sa, o_run in outs:
        if p == ref[0]:
            continue
        case = dict(source=src, statements=stmts, accepted_order=list(ref[0]), other_order=list(p))
        if o_sa[0] != "ok":
            part.fail("semantic_analysis_rejects_some_order:%s" % (o_sa[1] if o_sa[0] == "vtl" else o_sa[1].split(":")[0]), case,
                      "semantic_analysis accepts order %r but fails on order %r: %r" % (ref[0], p, o_sa[1]))
            return
        d = cmp.diff_results(ref[1][1], o_sa[1])
        if d:
            part.fail("semantic_structures_differ", case, "semantic_analysis structures differ between orders %r and %r: %s" % (ref[0], p, d))
            return
        if o_run[0] != "ok":
            part.fail("run_rejects_some_order:%s" % (o_run[1] if o_run[0] == "vtl" else o_run[1].split(":")[0]), case,
                      "run accepts order %r but fails on order %r: %r" % (ref[0], p, o_run[1]))
            return
        d = cmp.diff_results(ref[2][1], o_run[1])
        if d:
            part.fail("run_results_differ", case, "run results differ between orders %r and %r: %s" % (ref[0], p, d))
            return


def work_corpus(ids, quick, seed):
    warnings.filterwarnings("ignore")
    import random
    part = core.Part()
    cases = {c["id"]: c for c in corpus.harvest()}
    for i in ids:
        c = cases[i]
        stmts = split_statements(c["script"])
        if not stmts or len(stmts) < 2:
            part.hist["corpus_single_statement"] += 1
            continue
        rng = random.Random(seed * 1000003 + hash(i) % 100000)
        check_case(part, i, stmts, lambda s, c=c: corpus.run_kwargs(c, script=s), lambda s, c=c: corpus.sa_kwargs(c, script=s), quick, rng, ["corpus"])
    return part


# ---- generated dependency graphs ------------------------------------------------
COMPS = None


def gen_inputs():
    comps = [eng.comp("Id_1", "Integer", "I"), eng.comp("Me_1", "Number")]
    S = eng.structures(*[eng.structure("DS_%d" % k, comps) for k in (1, 2, 3)], scalars=[("sc_in", "Integer")])
    rows = {1: [(1, 1.5), (2, -2.0), (3, None), (4, 10.0)], 2: [(1, 3.0), (2, 4.0), (5, 6.0)], 3: [(2, 0.5), (3, 7.0), (4, None)]}
    def dps():
        return {"DS_%d" % k: eng.frame(comps, [{"Id_1": a, "Me_1": b} for a, b in rows[k]]) for k in (1, 2, 3)}
    return S, dps


DEFS = {
    "f_ds": "define operator f_ds (x dataset) returns dataset is x * 2 end operator;",
    "g_sc": "define operator g_sc (x dataset, k scalar) returns dataset is x + k end operator;",
    "h_nb": "define operator h_nb (x dataset, k number default 1) returns dataset is x - k end operator;",
    "dpr": 'define datapoint ruleset dpr (variable Me_1) is r1: Me_1 > 0 errorcode "neg" errorlevel 1 end datapoint ruleset;',
}


def graph_strategy():
    from hypothesis import strategies as st

    @st.composite
    def build(draw):
        n = draw(st.integers(2, 7))
        names = {"ds": ["DS_1", "DS_2", "DS_3"], "sc": [], "j": []}
        stmts, used_defs = [], set()
        for k in range(n):
            kinds = ["ds"] * 4 + ["sc", "sc", "j"]
            kind = draw(st.sampled_from(kinds))
            name = "%s_%d" % ({"ds": "R", "sc": "k", "j": "J"}[kind], k + 1)
            pick = lambda pool: draw(st.sampled_from(pool))
            if kind == "sc":
                if names["sc"] and draw(st.booleans()):
                    expr = "%s * 2 + 1" % pick(names["sc"])
                else:
                    expr = draw(st.sampled_from(["3", "1 + 1", "sc_in + 1", "10"]))
            elif kind == "j":
                a, b = pick(names["ds"]), pick(names["ds"])
                expr = draw(st.sampled_from([
                    "inner_join(%s as d1, %s as d2 rename d1#Me_1 to a1, d2#Me_1 to a2)",
                    "left_join(%s as d1, %s as d2 rename d1#Me_1 to a1, d2#Me_1 to a2)",
                    "full_join(%s as d1, %s as d2 calc a1 := d1#Me_1, a2 := d2#Me_1 drop d1#Me_1, d2#Me_1)"])) % (a, b)
            else:
                t = draw(st.sampled_from([0, 1, 2, 3, 4, 5, 5, 5, 6, 6, 7, 8, 8, 9, 9, 10, 11, 12]))
                a = pick(names["ds"]); b = pick(names["ds"])
                if t == 0: expr = "%s + %s" % (a, b)
                elif t == 1: expr = "%s * 2" % a
                elif t == 2: expr = "%s [filter Me_1 > 0]" % a
                elif t == 3: expr = "union(%s, %s)" % (a, b)
                elif t == 4: expr = "f_ds(%s)" % a; used_defs.add("f_ds")
                elif t == 5 and names["sc"]: expr = "g_sc(%s, %s)" % (a, pick(names["sc"])); used_defs.add("g_sc")
                elif t == 6 and names["sc"]: expr = "%s * %s" % (a, pick(names["sc"]))
                elif t == 7 and names["sc"]: expr = "%s [calc Me_1 := Me_1 + %s]" % (a, pick(names["sc"]))
                elif t == 8 and names["j"]: expr = "%s [calc Me_1 := a1 + a2] [keep Me_1]" % pick(names["j"])
                elif t == 9: expr = "inner_join(%s as d1, %s as d2 drop d2#Me_1)" % (a, b)
                elif t == 10: expr = "h_nb(%s, 2.5)" % a; used_defs.add("h_nb")
                elif t == 11: expr = "check_datapoint(%s, dpr all) [keep bool_var] [calc Me_1 := if bool_var then 1.0 else 0.0] [keep Me_1]" % a; used_defs.add("dpr")
                elif t == 12: expr = "setdiff(%s, %s)" % (a, b)
                else: expr = "%s - %s" % (a, b)
            persistent = draw(st.booleans())
            stmts.append("%s %s %s;" % (name, "<-" if persistent else ":=", expr))
            names[kind].append(name)
        stmts += [DEFS[d] for d in sorted(used_defs)]
        order = draw(st.permutations(list(range(len(stmts)))))
        return [stmts[i] for i in order]
    return build()


def negative_strategy():
    from hypothesis import strategies as st

    @st.composite
    def build(draw):
        kind = draw(st.sampled_from(["cycle", "redef"]))
        n = draw(st.integers(2, 4))
        stmts = []
        if kind == "cycle":
            names = ["C_%d" % i for i in range(n)]
            for i, nm in enumerate(names):
                op = draw(st.sampled_from(["%s + DS_1", "%s * 2", "%s [filter Me_1 > 0]", "union(%s, DS_2)"]))
                stmts.append("%s %s %s;" % (nm, draw(st.sampled_from([":=", "<-"])), op % names[(i + 1) % n]))
            for k in range(draw(st.integers(0, 2))):
                stmts.append("X_%d := DS_%d * 3;" % (k, k + 1))
        else:
            stmts.append("A := DS_1 * 2;")
            stmts.append("A %s DS_2 + %s;" % (draw(st.sampled_from([":=", "<-"])), draw(st.sampled_from(["1", "DS_3"]))))
            for k in range(draw(st.integers(0, 2))):
                stmts.append("X_%d := %s * 3;" % (k, draw(st.sampled_from(["DS_1", "DS_3"]))))
        order = draw(st.permutations(list(range(len(stmts)))))
        return kind, [stmts[i] for i in order]
    return build()


def work_generated(seed, n, quick):
    warnings.filterwarnings("ignore")
    import random, hypothesis
    from hypothesis import given, settings, HealthCheck
    from vtlengine import run, semantic_analysis
    part = core.Part()
    S, dps = gen_inputs()
    mk_run = lambda s: dict(script=s, data_structures=S, datapoints=dps(), scalar_values={"sc_in": 4}, return_only_persistent=False)
    mk_sa = lambda s: dict(script=s, data_structures=S)
    st_set = dict(max_examples=n, database=None, deadline=None, suppress_health_check=list(HealthCheck), phases=[hypothesis.Phase.generate])

    @settings(**st_set)
    @hypothesis.seed(seed)
    @given(graph_strategy())
    def prop(stmts):
        rng = random.Random(hash(tuple(stmts)) % 1000003)
        check_case(part, "generated", stmts, mk_run, mk_sa, quick, rng, ["generated"])
    prop()

    @settings(**dict(st_set, max_examples=max(10, n // 3)))
    @hypothesis.seed(seed + 77)
    @given(negative_strategy())
    def neg(kc):
        kind, stmts = kc
        want = "1-3-2-3" if kind == "cycle" else "1-2-2"
        part.case(core.fingerprint([kind, sorted(stmts)]), len(stmts) >= 3, labels=["negative:" + kind])
        idx = list(range(len(stmts)))
        allp = list(itertools.permutations(idx))
        if len(allp) > (24 if quick else 720):
            rng = random.Random(hash(tuple(stmts)) % 1000003)
            allp = rng.sample(allp, 24 if quick else 720)
        for p in allp:
            script = "\n".join(stmts[i] for i in p)
            for fname, call in (("semantic_analysis", lambda: semantic_analysis(**mk_sa(script))), ("run", lambda: run(**mk_run(script)))):
                o = outcome(call)
                got = o[1] if o[0] == "vtl" else ("accepted" if o[0] == "ok" else o[1])
                if got != want:
                    part.fail("negative:%s:%s:%s" % (kind, fname, "accepted" if o[0] == "ok" else str(got).split(":")[0]),
                              dict(source="generated-negative", statements=[stmts[i] for i in p]), "%s: expected %s, got %r" % (fname, want, got))
                    return
    neg()
    return part


def _dispatch(fname, args):
    return globals()[fname](*args)


def run(ctx):
    ctx.rule = ("cases: multi-statement executable corpus scripts cut at parse-tree statement boundaries + Hypothesis-generated dependency graphs "
                "(2-7 statements over datasets, scalars, joins with aliases, UDOs with dataset/scalar/number parameters, datapoint rulesets; written in a random order); "
                "each case is checked under all permutations (<=3 statements; <=6 in thorough) or a sample containing reverse and rotations; "
                "non-trivial = >=3 statements and >=1 non-identity permutation executed; negative cases: generated cycles / redefinitions, all permutations")
    multi = [c for c in corpus.executable_cases(max_s=2.0 if ctx.quick else 20.0) if c["script"].count(";") >= 2]
    if ctx.quick:
        multi = corpus.rotate(multi, ctx.seed, 64)
    ids = [c["id"] for c in multi]
    n = 9 if ctx.quick else 400
    jobs = [("work_corpus", (ids[k::16], ctx.quick, ctx.seed)) for k in range(16)]
    jobs += [("work_generated", (ctx.seed * 1009 + k, n, ctx.quick)) for k in range(16)]
    ctx.merge(core.pmap("checks.c12", "_dispatch", jobs, procs=16))
    ctx.assumptions = ["statement boundaries come from the parser stand-in's parse tree", "comments between statements are dropped when statements are re-assembled"]


def replay(ctx, path):
    import json
    warnings.filterwarnings("ignore")
    from vtlengine import run as vrun
    case = json.load(open(path))["case"]
    part = core.Part()
    import random
    if case["source"].startswith("generated"):
        S, dps = gen_inputs()
        mk_run = lambda s: dict(script=s, data_structures=S, datapoints=dps(), scalar_values={"sc_in": 4}, return_only_persistent=False)
        mk_sa = lambda s: dict(script=s, data_structures=S)
    else:
        c = {c["id"]: c for c in corpus.harvest()}[case["source"]]
        mk_run = lambda s: corpus.run_kwargs(c, script=s); mk_sa = lambda s: corpus.sa_kwargs(c, script=s)
    check_case(part, case["source"], case["statements"], mk_run, mk_sa, False, random.Random(1), [])
    print("replay failures:", {k: v[2] for k, v in part.failures.items()})
    return 1 if part.failures else 0
