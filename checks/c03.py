"""C03 — aggregations group and summarise as specified.

Differential oracle (refvtl, exact rational arithmetic) over Hypothesis-generated aggregation statements: standalone
`op(ds group by|group except ids [having ...])`, `op(ds)` and `ds[aggr ... group by ... having ...]`, 0-12 rows with
repeated keys in the non-grouped identifiers, null measures, all-null and single-row groups.
"""
import warnings
from verif import core, gen, diffrun
from checks import c01

LEVEL = "exploration"


def work(seed, n):
    warnings.filterwarnings("ignore")
    import hypothesis
    from hypothesis import given, settings, HealthCheck
    part = core.Part()

    @settings(max_examples=n, database=None, deadline=None, suppress_health_check=list(HealthCheck), phases=[hypothesis.Phase.generate])
    @hypothesis.seed(seed)
    @given(gen.agg_case())
    def prop(c):
        ci, ir = c
        key, what, facts = diffrun.run_case(ci, ir)
        if key == "unsupported":
            part.hist["unsupported_by_reference"] += 1
            return
        rows = ci["rows"]["DS_1"]
        mode, gids = ir[3], ir[4]
        comps = ci["structs"]["DS_1"]
        ids = [i for i, (r, t) in comps.items() if r == "I"]
        keep = [i for i in ids if i in gids] if mode == "by" else [i for i in ids if i not in gids] if mode == "except" else []
        groups = {}
        for r in rows:
            groups.setdefault(tuple(r[i] for i in keep), []).append(r)
        has_null = any(v is None for r in rows for v in r.values())
        nt = sum(1 for g in groups.values() if len(g) >= 2) >= 1 and len(groups) >= 2 and has_null
        op = ir[1] if ir[0] == "agg" else "aggr-clause"
        part.case(core.fingerprint([ci, facts["script"]]), nt, sample=dict(script=facts["script"], rows=rows[:4]) if nt and len(part.samples) < 2 else None,
                  labels=["op=" + str(op), "mode=" + mode, "having" if ir[5] else "no-having", "groups=%d" % min(len(groups), 5)])
        if key:
            if key not in part.failures:
                ci2, ir2 = diffrun.reduce_case(ci, ir, key.split(":")[0], budget=25)
                k2, w2, f2 = diffrun.run_case(ci2, ir2)
                if k2 and k2.split(":")[0] == key.split(":")[0]:
                    ci, ir, key, what, facts = ci2, ir2, k2, w2, f2
            key = key.split(":")[0] + ":" + str(op) + ":" + mode + (":having" if ir[5] else "")
            part.fail(key, dict(inputs=ci, script=facts["script"], ir=repr(ir)), what)
    prop()
    return part


def run(ctx):
    ctx.rule = ("cases: Hypothesis-generated aggregation statements (10 operators; group by / group except / no grouping; having over an aggregate or count(); standalone and aggr clause) over "
                "numeric datasets with 1-3 identifiers, 0-12 rows, nulls; oracle = refvtl with exact rationals; non-trivial = >=2 groups, one with >=2 rows, and a null measure; distinct by (inputs, script)")
    n = 60 if ctx.quick else 2500
    ctx.merge(core.pmap("checks.c03", "work", [(ctx.seed * 1009 + k, n) for k in range(16)], procs=16))
    ctx.assumptions = ["count is generated only over datasets without null measures (whether null measures are counted is not settled by the sources available offline)",
                       "aggregates of an empty dataset without grouping are not generated; tolerance 1e-7 relative for avg/median/stddev/var"]


replay = c01.replay
