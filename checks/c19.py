"""C19 — run() rejects every input that violates its declared structure (and accepts every valid one, returning the value it denotes).

Oracle: a validity predicate written from docs/data_types.rst + the calendar (lib/verif/valuecat.py: every labelled spelling is
documented-valid, documented-invalid or not settled) and the structural rules of the statement (duplicate keys, null identifier,
missing identifier / non-nullable column, >1 datapoint without identifiers).  Two scripts per table separate LOAD validation from
OUTPUT formatting: the pass-through `R <- DS_1;` and a projection that does not return the offending column.
Violation classes, most severe first: silently accepted (by either script) > raw exception > VTL error of the wrong family.
"""
import warnings
from verif import core, eng, valuecat
from checks import inputs_common as ic

LEVEL = "exploration"


def work_cells(items):
    """items: (type, label, text, verdict, denotes, form, role)"""
    warnings.filterwarnings("ignore")
    part = core.Part()
    for typ, label, text, ok, denotes, form, role in items:
        if ok is None:
            continue
        comps, S = ic.structure(typ, role=role)
        header = [c["name"] for c in comps]
        rows = [["1", text], ["2", valuecat.VALID_FILL[typ]]] if role == "M" else [["1", text]]
        if role == "I":
            comps, S = [eng.comp("Me_1", typ, "I"), eng.comp("Me_9", "Integer")], None
            S = eng.structures(eng.structure("DS_1", comps))
            header, rows = ["Me_1", "Me_9"], [[text, "1"]]
        case = dict(type=typ, value_class=label, text=text, form=form, role=role, documented_valid=ok)
        part.case("%s:%s:%s" % (label, form, role), (not ok) or text != valuecat.VALID_FILL[typ], sample=case if len(part.samples) < 3 else None, labels=["type=" + typ, "form=" + form, "valid" if ok else "invalid", "role=" + role])
        with ic.Tmp() as tmp:
            dp = lambda tag: ic.materialise(form, comps, header, rows, tmp, tag)
            v_pass, r_pass = ic.run_table(S, ic.PASS, dp("a"))
            v_proj, r_proj = ic.run_table(S, ic.PROJ if role == "M" else "R <- DS_1 [calc ok := 1] [keep ok];", dp("b"))
        key = "%s:%s" % (label, form)
        if ok:
            if v_pass != "ok" or v_proj != "ok":
                bad = (v_pass, r_pass) if v_pass != "ok" else (v_proj, r_proj)
                part.fail("valid_rejected:%s" % key if bad[0] != "raw" else "raw:%s" % key, case, "documented-valid value %r: %s (%s)" % (text, bad[0], bad[1]))
            elif denotes is not None:
                got = ic.result_cell(r_pass, "Me_1", 1) if role == "M" else [eng.norm(x) for x in r_pass["R"].data["Me_1"].tolist()][0]
                from verif import cmp
                if not cmp.values_equal(got, denotes):
                    part.fail("wrong_value:%s" % key, case, "input %r returned as %r, denotes %r" % (text, got, denotes))
            continue
        worst = None
        for script, v, r in (("pass-through", v_pass, r_pass), ("projection", v_proj, r_proj)):
            sev = {"ok": 3, "raw": 2, "vtl_other": 1, "input": 0}[v]
            if worst is None or sev > worst[0]:
                worst = (sev, script, v, r)
        if worst[0] == 3:
            part.fail("invalid_accepted:%s:%s" % (key, "both" if v_pass == v_proj == "ok" else worst[1] + "_only"), case, "invalid value %r accepted by the %s script (pass-through: %s, projection: %s)" % (text, worst[1], v_pass, v_proj))
        elif worst[0] == 2:
            part.fail("raw:%s" % key, case, "invalid value %r: raw exception %s" % (text, worst[3]))
        elif worst[0] == 1:
            part.fail("wrong_error_family:%s" % key, case, "invalid value %r rejected with %s instead of a data-load / input-validation error" % (text, worst[3]))
    return part


STRUCTURAL = ["duplicate_key", "null_identifier", "missing_identifier_column", "missing_non_nullable_column", "two_rows_without_identifiers", "null_in_non_nullable"]


def work_structural(seed, n):
    warnings.filterwarnings("ignore")
    import hypothesis
    from hypothesis import given, settings, HealthCheck, strategies as st
    part = core.Part()
    types = ["Integer", "Number", "String", "Boolean", "Date", "Time_Period"]

    @settings(max_examples=n, database=None, deadline=None, suppress_health_check=list(HealthCheck), phases=[hypothesis.Phase.generate])
    @hypothesis.seed(seed)
    @given(st.lists(st.sampled_from(STRUCTURAL), min_size=0, max_size=3, unique=True), st.sampled_from(["csv", "df", "parquet"]), st.sampled_from(types), st.sampled_from(types), st.integers(2, 5))
    def prop(viol, form, t_id2, t_me, nrows):
        dwi = "two_rows_without_identifiers" in viol
        if dwi:
            viol = ["two_rows_without_identifiers"]
        comps = [] if dwi else [eng.comp("Id_1", "Integer", "I"), eng.comp("Id_2", t_id2, "I")]
        comps += [eng.comp("Me_1", t_me, "M", False), eng.comp("Me_2", "String", "M", True)]
        S = eng.structures(eng.structure("DS_1", comps))
        id2_vals = {"Integer": ["1", "2", "3", "4", "5"], "Number": ["1.5", "2.5", "3.5", "4.5", "5.5"], "String": list("abcde"), "Boolean": ["true", "false", "true", "false", "true"],
                    "Date": ["2020-01-0%d" % i for i in range(1, 6)], "Time_Period": ["2020Q1", "2020-Q2", "2020M7", "2020-W40", "2021"]}[t_id2]
        header = [c["name"] for c in comps]
        rows = []
        for i in range(nrows if not dwi else 2):
            r = {"Id_1": str(i // 2 + 1), "Id_2": id2_vals[i], "Me_1": valuecat.VALID_FILL[t_me], "Me_2": None if i % 2 else "x"}
            rows.append([r[h] for h in header])
        if t_id2 == "Boolean" and not dwi:   # only two distinct values: keep keys unique through Id_1
            for i, r in enumerate(rows):
                r[0] = str(i + 1)
        if "duplicate_key" in viol and not dwi:
            rows.append(list(rows[0]))
            if t_id2 == "Time_Period":   # the same period in another documented spelling is the same key
                rows[-1][1] = {"2020Q1": "2020-Q1"}.get(rows[-1][1], rows[-1][1])
        if "null_identifier" in viol and not dwi:
            rows[-1 if "duplicate_key" not in viol else 1][header.index("Id_2")] = None
        if "null_in_non_nullable" in viol:
            rows[0][header.index("Me_1")] = None
        if "missing_identifier_column" in viol and not dwi:
            j = header.index("Id_2"); header = header[:j] + header[j + 1:]; rows = [r[:j] + r[j + 1:] for r in rows]
        if "missing_non_nullable_column" in viol:
            j = header.index("Me_1"); header = header[:j] + header[j + 1:]; rows = [r[:j] + r[j + 1:] for r in rows]
        case = dict(violations=viol, form=form, id2_type=t_id2, measure_type=t_me, header=header, rows=rows)
        part.case(core.fingerprint(case), bool(viol), sample=case if len(part.samples) < 3 else None, labels=["structural", "form=" + form, "violations=%d" % len(viol)] + viol)
        with ic.Tmp() as tmp:
            v, r = ic.run_table(S, ic.PASS, ic.materialise(form, comps, header, rows, tmp, "s"))
        if viol:
            if v == "ok":
                part.fail("structural_accepted:%s:%s" % ("+".join(viol), form), case, "table with %s accepted" % viol)
            elif v == "raw":
                part.fail("structural_raw:%s:%s" % ("+".join(viol), form), case, "table with %s: %s" % (viol, r))
            elif v == "vtl_other":
                part.fail("structural_wrong_error_family:%s:%s" % ("+".join(viol), form), case, "table with %s: %s" % (viol, r))
        elif v != "ok":
            part.fail("valid_table_rejected:%s:%s:%s" % (form, t_id2, t_me), case, "valid table rejected: %s %s" % (v, r))
    prop()
    return part


def _dispatch(fname, args):
    return globals()[fname](*args)


def run(ctx):
    ctx.rule = ("cases: every labelled spelling of the catalogue (documented-valid and documented-invalid values of every type, calendar-invalid periods and dates) as a single offending cell, in CSV and string-DataFrame form, as "
                "measure and (for identifiers-capable types) as identifier, each under a pass-through and a projection script; plus Hypothesis tables with 0-3 structural violations (duplicate keys incl. the same period in two "
                "spellings, null identifier, missing identifier / non-nullable column, null in non-nullable, 2 rows without identifiers) in CSV / DataFrame / Parquet form; non-trivial = case with >=1 violation or a non-canonical valid spelling")
    items = []
    for typ, entries in valuecat.CATALOGUE.items():
        for label, text, ok, denotes in entries:
            for form in ("csv", "df"):
                if form == "csv" and ('"' in text):
                    continue
                items.append((typ, label, text, ok, denotes, form, "M"))
                if typ in ("Integer", "String", "Date", "Time_Period") and ok is not None:
                    items.append((typ, label, text, ok, denotes, form, "I"))
    n = 20 if ctx.quick else 600
    jobs = [("work_cells", (items[k::12],)) for k in range(12)] + [("work_structural", (ctx.seed * 1009 + k, n)) for k in range(4)]
    ctx.merge(core.pmap("checks.c19", "_dispatch", jobs, procs=16))
    ctx.exhaustive = None
    ctx.assumptions = ["validity of each spelling is decided by the documented input formats and the Gregorian / ISO-8601 calendars; spellings the docs leave open (verdict None in valuecat) are not asserted here",
                       "an empty CSV field is a null; embedded double quotes are only tested in DataFrame form"]


def replay(ctx, path):
    import json
    c = json.load(open(path))["case"]
    if "value_class" in c:
        ent = [e for e in valuecat.CATALOGUE[c["type"]] if e[0] == c["value_class"]][0]
        p = work_cells([(c["type"],) + ent + (c["form"], c.get("role", "M"))])
    else:
        p = work_structural(1, 40)
    print("replay failures:", {k: v[2] for k, v in p.failures.items()})
    return 1 if p.failures else 0
