"""C10 — results conform to the structure predicted by semantic_analysis.

Oracle (no reference interpreter needed): for each dataset returned by a successful run():
name, component names, roles, types, nullability and COLUMN ORDER equal what semantic_analysis()
reports for the same script/structures; every value conforms to its component type; identifiers are
never null and unique; non-nullable components never null; a dataset without identifiers has <= 1 row;
scalars have the predicted type.
"""
import warnings
from verif import core, corpus, cmp, eng, valid
from checks import c24, c12

LEVEL = "exploration"


def tname(t):
    return getattr(t, "__name__", str(t))


def check_results(res, sa, period_format="vtl"):
    """-> list of (key, what). res/sa: engine result dicts."""
    from vtlengine.Model import Dataset, Scalar
    out = []
    for name, r in res.items():
        if name not in sa:
            out.append(("result_not_predicted", "run returned %s which semantic_analysis does not report" % name)); continue
        p = sa[name]
        if isinstance(r, Scalar) != isinstance(p, Scalar):
            out.append(("kind_mismatch", "%s: run returned %s, semantic_analysis %s" % (name, type(r).__name__, type(p).__name__))); continue
        if isinstance(r, Scalar):
            if tname(r.data_type) != tname(p.data_type) and tname(p.data_type) != "Null":
                out.append(("scalar_type", "%s: scalar type %s, predicted %s" % (name, tname(r.data_type), tname(p.data_type))))
            v = eng.norm(r.value)
            if v is not None and not valid.conforms(tname(r.data_type), v, period_format):
                out.append(("scalar_value_type:%s" % tname(r.data_type), "%s: value %r does not conform to %s" % (name, v, tname(r.data_type))))
            continue
        if r.name != name:
            out.append(("dataset_name", "result key %s holds dataset named %s" % (name, r.name)))
        rc = [(n, c.role.name, tname(c.data_type), bool(c.nullable)) for n, c in r.components.items()]
        pc = [(n, c.role.name, tname(c.data_type), bool(c.nullable)) for n, c in p.components.items()]
        if rc != pc:
            if sorted(rc) == sorted(pc):
                out.append(("component_order", "%s: component order %r vs predicted %r" % (name, [c[0] for c in rc], [c[0] for c in pc])))
            else:
                d = [x for x in rc if x not in pc][:2], [x for x in pc if x not in rc][:2]
                field = "components"
                if [c[0] for c in sorted(rc)] == [c[0] for c in sorted(pc)]:
                    a, b = d[0][0] if d[0] else None, d[1][0] if d[1] else None
                    if a and b:
                        field = ["name", "role", "type", "nullable"][[i for i in range(4) if a[i] != b[i]][0]] if a[0] == b[0] else "components"
                out.append(("component_%s" % field, "%s: components %r vs predicted %r" % (name, d[0], d[1])))
            continue
        if r.data is None:
            continue
        cols = list(r.data.columns)
        if cols != [c[0] for c in pc]:
            out.append(("column_order" if sorted(cols) == sorted(c[0] for c in pc) else "column_set",
                        "%s: DataFrame columns %r vs predicted components %r" % (name, cols, [c[0] for c in pc])))
            continue
        ids = [i for i, c in enumerate(pc) if c[1] == "IDENTIFIER"]
        seen = set()
        nrows = 0
        for rec in r.data.itertuples(index=False, name=None):
            nrows += 1
            vals = [eng.norm(v) for v in rec]
            for (cn, role, typ, nullable), v in zip(pc, vals):
                if v is None:
                    if role == "IDENTIFIER":
                        out.append(("null_identifier", "%s: identifier %s is null" % (name, cn)))
                    elif not nullable:
                        out.append(("null_in_non_nullable", "%s: non-nullable %s %s is null" % (name, role.lower(), cn)))
                elif not valid.conforms(typ, v, period_format):
                    out.append(("value_type:%s:%s:%s" % (typ, cn if cn in ("errorcode", "errorlevel", "imbalance", "bool_var", "ruleid") else "*", type(v).__name__),
                                "%s: %s = %r does not conform to %s" % (name, cn, v, typ)))
            if ids:
                k = tuple(vals[i] for i in ids)
                if k in seen:
                    out.append(("duplicate_identifiers", "%s: identifier key %r occurs twice" % (name, k)))
                seen.add(k)
            if len(out) > 5:
                break
        if not ids and nrows > 1:
            out.append(("rows_without_identifiers", "%s has no identifiers but %d rows" % (name, nrows)))
    # de-duplicate keys
    uniq = {}
    for k, w in out:
        uniq.setdefault(k, w)
    return list(uniq.items())


def case_variant_names(script, structures):
    """True when the script and the input structures together use two names that differ only in letter case."""
    import json, pathlib, re
    names = set(re.findall(r"[A-Za-z_][A-Za-z0-9_]*", script))
    try:
        items = structures if isinstance(structures, list) else [structures]
        for it in items:
            d = json.load(open(it)) if isinstance(it, (str, pathlib.Path)) else it
            for ds in d.get("datasets", []):
                names.add(ds["name"]); names.update(c["name"] for c in ds.get("DataStructure", []))
    except Exception:
        pass
    low = {}
    for n in names:
        low.setdefault(n.lower(), set()).add(n)
    return any(len(v) > 1 for v in low.values())


def evaluate(part, src, run_kw, sa_kw, labels, fmt="vtl", extra=None):
    from vtlengine import run, semantic_analysis
    try:
        res = run(**run_kw)
    except Exception:
        part.hist["run_failed"] += 1
        return
    try:
        sa = semantic_analysis(**sa_kw)
    except Exception as e:  # noqa
        part.fail("semantic_analysis_fails_where_run_succeeds:%s" % type(e).__name__, dict(source=src, script=run_kw["script"]), str(e)[:300])
        return
    nrows = max([len(r.data) for r in res.values() if getattr(r, "data", None) is not None] + [0])
    ncomp = max([len(r.components) for r in res.values() if hasattr(r, "components")] + [0])
    nt = nrows >= 1 and ncomp >= 2
    part.case(core.fingerprint([src, run_kw["script"], fmt]), nt, sample=dict(source=src, script=run_kw["script"][:300], results=sorted(res)) if nt and len(part.samples) < 3 else None,
              labels=labels + ["results=%d" % min(len(res), 5)])
    import re
    for key, what in check_results(res, sa, fmt):
        if key == "null_in_non_nullable":
            m = re.search(r"non-nullable \w+ (\w+) is null", what)
            if m and re.search(r"calc\s+(?:\w+\s+)?%s\s*:=\s*if\b" % re.escape(m.group(1)), run_kw["script"]):
                key = "null_in_non_nullable:calc_if_then_else"   # the component is computed by an if-then-else (null condition)
        if key in ("column_set", "column_order") and re.search(r"\[\s*unpivot\b", run_kw["script"]):
            key += ":unpivot"
        elif key == "column_set" and case_variant_names(run_kw["script"], sa_kw.get("data_structures")):
            key += ":case_variant_names"   # same root cause as the C29 findings (identifiers are case-insensitive in DuckDB)
        part.fail(key, dict(source=src, script=run_kw["script"], format=fmt, **(extra or {})), what)


def work_corpus(ids, fmt_cycle):
    warnings.filterwarnings("ignore")
    part = core.Part()
    cases = {c["id"]: c for c in corpus.harvest()}
    fmts = ["vtl", "sdmx_reporting", "natural", "sdmx_gregorian"]
    for n, i in enumerate(ids):
        c = cases[i]
        fmt = fmts[n % 4] if fmt_cycle else "vtl"
        kw = corpus.run_kwargs(c)
        if fmt != "vtl":
            kw["time_period_output_format"] = fmt
        evaluate(part, i, kw, corpus.sa_kwargs(c), ["corpus", "fmt=" + fmt], fmt)
    return part


def work_generated(seed, n):
    warnings.filterwarnings("ignore")
    import hypothesis
    from hypothesis import given, settings, HealthCheck
    part = core.Part()
    S, comps, rows = c24.gen_struct()
    S2, dps2 = c12.gen_inputs()
    st_set = dict(max_examples=n, database=None, deadline=None, suppress_health_check=list(HealthCheck), phases=[hypothesis.Phase.generate])

    @settings(**st_set)
    @hypothesis.seed(seed)
    @given(c24.script_strategy(set()))
    def p1(script):
        evaluate(part, "generated:literals", dict(script=script, data_structures=S, datapoints={"DS_1": eng.frame(comps, rows), "DS_2": eng.frame(comps, rows[:2])}, return_only_persistent=False),
                 dict(script=script, data_structures=S), ["generated:literals"])
    p1()

    @settings(**st_set)
    @hypothesis.seed(seed + 1)
    @given(c12.graph_strategy())
    def p2(stmts):
        script = "\n".join(stmts)
        evaluate(part, "generated:graphs", dict(script=script, data_structures=S2, datapoints=dps2(), scalar_values={"sc_in": 4}, return_only_persistent=False),
                 dict(script=script, data_structures=S2), ["generated:graphs"])
    p2()

    # generated structures: nested identifier sets, per-measure nullability flags, nulls only where declared nullable
    from hypothesis import strategies as st
    from verif import gen

    @settings(**st_set)
    @hypothesis.seed(seed + 2)
    @given(st.data())
    def p3(data):
        ci = data.draw(gen.case_inputs(max_rows=6))
        dss, dps = [], {}
        for name, comps in ci["structs"].items():
            cl = []
            for n, (role, t) in comps.items():
                nullable = None if role == "I" else data.draw(st.booleans())
                cl.append(eng.comp(n, t, role, nullable))
            rows = [{c["name"]: (r.get(c["name"]) if (r.get(c["name"]) is not None or c["nullable"]) else gen.POOL[c["type"]][1]) for c in cl} for r in ci["rows"][name]]
            dss.append(eng.structure(name, cl)); dps[name] = eng.frame(cl, rows)
        ir = data.draw(gen.ds_expr(ci, data.draw(st.integers(1, 2))))
        if data.draw(st.booleans()):
            ir = data.draw(gen.clause_chain(ir if ir[0] == "ds" else ("ds", sorted(ci["structs"])[0]), ci["structs"], data.draw(st.integers(1, 2))))
        script = "R <- %s;" % gen.render_ds(ir)
        S3 = eng.structures(*dss)
        evaluate(part, "generated:structures", dict(script=script, data_structures=S3, datapoints=dps, return_only_persistent=False), dict(script=script, data_structures=S3),
                 ["generated:structures", "ids_differ" if len({tuple(n for n, (r, t) in c.items() if r == "I") for c in ci["structs"].values()}) > 1 else "ids_equal"], extra=dict(structures=S3, rows={k: v.to_dict("records") for k, v in dps.items()}))
    p3()

    # Time_Period identifiers written in several documented spellings, with and without collisions after normalisation
    SPELL = {"2020Q1": ["2020Q1", "2020-Q1"], "2020M3": ["2020M3", "2020-M03", "2020M03", "2020-03"], "2020A": ["2020", "2020A", "2020-A1"], "2020D15": ["2020D15", "2020-D015", "2020-01-15"],
             "2020W5": ["2020W5", "2020-W05"], "2021Q1": ["2021Q1", "2021-Q1"], "2020S2": ["2020S2", "2020-S2"]}
    compsT = [eng.comp("Id_1", "Integer", "I"), eng.comp("Id_t", "Time_Period", "I"), eng.comp("Me_1", "Number")]
    ST = eng.structures(eng.structure("DS_T", compsT))
    SCRIPTS_T = ["R <- DS_T;", "R <- DS_T * 2;", "R <- DS_T [calc Me_2 := Me_1 + 1];", "R <- DS_T [filter Me_1 > 0];", "R <- sum(DS_T group by Id_t);", "R <- DS_T + DS_T;", "R <- DS_T [keep Me_1];", "R <- max(DS_T group by Id_1);"]

    @settings(**st_set)
    @hypothesis.seed(seed + 3)
    @given(st.lists(st.tuples(st.sampled_from([1, 2]), st.sampled_from(sorted(SPELL)), st.integers(0, 3)), min_size=1, max_size=5), st.sampled_from(SCRIPTS_T), st.sampled_from(["vtl", "sdmx_reporting", "natural"]))
    def p4(cells, script, fmt):
        rows, seen = [], set()
        for i, (a, per, k) in enumerate(cells):
            text = SPELL[per][k % len(SPELL[per])]
            if (a, text) in seen:
                continue
            seen.add((a, text)); rows.append({"Id_1": a, "Id_t": text, "Me_1": float(i)})
        canon = [(a, per) for a, per, k in cells]
        collide = len(set((r["Id_1"], [p for p, sp in SPELL.items() if r["Id_t"] in sp][0]) for r in rows)) < len(rows)
        evaluate(part, "generated:period_spellings", dict(script=script, data_structures=ST, datapoints={"DS_T": eng.frame(compsT, rows)}, return_only_persistent=False, time_period_output_format=fmt), dict(script=script, data_structures=ST),
                 ["generated:period_spellings", "collision_after_normalisation" if collide else "no_collision"], fmt=fmt, extra=dict(structures=ST, rows={"DS_T": rows}))
    p4()
    return part


def work_nullability():
    """Exhaustive: dataset-dataset operators x identifier-set relation (equal / left subset / right subset) x declared nullability of the
    measure on each side x which side actually holds a null."""
    warnings.filterwarnings("ignore")
    part = core.Part()
    import itertools
    ids_full = [eng.comp("Id_1", "Integer", "I"), eng.comp("Id_2", "String", "I")]
    for op, rel, ln, rn, two in itertools.product(["+", "*", ">", "="], ["equal", "left_subset", "right_subset"], [True, False], [True, False], [False, True]):
        lids = ids_full[:1] if rel == "left_subset" else ids_full
        rids = ids_full[:1] if rel == "right_subset" else ids_full
        meas = ["Me_1", "Me_2"] if two and op in "+*" else ["Me_1"]
        lc = lids + [eng.comp(m, "Number", "M", ln) for m in meas]
        rc = rids + [eng.comp(m, "Number", "M", rn) for m in meas]
        def rows(idc, nullable, base):
            out = []
            for i in (1, 2):
                for j in (["a", "b"] if len(idc) == 2 else [None]):
                    r = {"Id_1": i}
                    if j is not None:
                        r["Id_2"] = j
                    for m in meas:
                        r[m] = None if nullable and i == 1 else float(base + i)
                    out.append(r)
            return out
        S = eng.structures(eng.structure("DS_1", lc), eng.structure("DS_2", rc))
        script = "R <- DS_1 %s DS_2;" % op
        dps = {"DS_1": eng.frame(lc, rows(lids, ln, 0)), "DS_2": eng.frame(rc, rows(rids, rn, 10))}
        evaluate(part, "generated:nullability", dict(script=script, data_structures=S, datapoints=dps, return_only_persistent=False), dict(script=script, data_structures=S),
                 ["generated:nullability", "ids=" + rel, "left_nullable=%s" % ln, "right_nullable=%s" % rn], extra=dict(structures=S, rows={k: v.to_dict("records") for k, v in dps.items()}))
    return part


PROBE_F18 = """define hierarchical ruleset hr1 (variable rule Id_2) is
  a = b + c errorcode "x" errorlevel 1;
  b >= c - d
end hierarchical ruleset;
R_h <- check_hierarchy(DS_1#Me_1, hr1 rule Id_2 non_zero all);"""


def probe_known():
    warnings.filterwarnings("ignore")
    part = core.Part()
    S, comps, rows = c24.gen_struct()
    evaluate(part, "probe:hr_mixed_errorlevel", dict(script=PROBE_F18, data_structures=S, datapoints={"DS_1": eng.frame(comps, rows)}, return_only_persistent=False),
             dict(script=PROBE_F18, data_structures=S), ["known_finding_probe"])
    return part


def _dispatch(fname, args):
    return globals()[fname](*args)


def run(ctx):
    ctx.rule = ("cases: executable corpus scripts (time_period_output_format cycled over the 4 formats) + Hypothesis-generated scripts (literal/clause grammar of C24, "
                "dependency graphs of C12, dataset expressions and clause chains over generated structures with nested identifier sets and per-measure nullability, Time_Period identifiers in mixed spellings) + every combination of dataset-dataset operator, identifier-set relation and declared/actual nullability of the operands; non-trivial = some returned dataset has >=1 row and >=2 components; distinct by (source, script, format)")
    exe = corpus.executable_cases(max_s=2.0 if ctx.quick else None, include_nondet=True)
    if ctx.quick:
        exe = corpus.rotate(exe, ctx.seed, 200)
    ids = [c["id"] for c in exe]
    n = 15 if ctx.quick else 1000
    jobs = [("work_corpus", (ids[k::16], True)) for k in range(16)] + [("work_generated", (ctx.seed * 1009 + k, n)) for k in range(16)] + [("probe_known", ()), ("work_nullability", ())]
    ctx.merge(core.pmap("checks.c10", "_dispatch", jobs, procs=16))
    ctx.assumptions = ["value conformance uses the documented output forms of docs/data_types.rst; an Integer cell may be an integral float (pandas float64 column with NaN)"]


def replay(ctx, path):
    import json
    warnings.filterwarnings("ignore")
    case = json.load(open(path))["case"]
    part = core.Part()
    if case["source"].startswith("generated:literals"):
        S, comps, rows = c24.gen_struct()
        evaluate(part, case["source"], dict(script=case["script"], data_structures=S, datapoints={"DS_1": eng.frame(comps, rows), "DS_2": eng.frame(comps, rows[:2])}, return_only_persistent=False), dict(script=case["script"], data_structures=S), [])
    elif case["source"].startswith(("generated:structures", "generated:period_spellings", "generated:nullability")):
        comps = {d["name"]: d["DataStructure"] for d in case["structures"]["datasets"]}
        kw = dict(script=case["script"], data_structures=case["structures"], datapoints={n: eng.frame(comps[n], r) for n, r in case["rows"].items()}, return_only_persistent=False)
        if case.get("format", "vtl") != "vtl":
            kw["time_period_output_format"] = case["format"]
        evaluate(part, case["source"], kw, dict(script=case["script"], data_structures=case["structures"]), [], case.get("format", "vtl"))
    elif case["source"].startswith("generated:graphs"):
        S2, dps2 = c12.gen_inputs()
        evaluate(part, case["source"], dict(script=case["script"], data_structures=S2, datapoints=dps2(), scalar_values={"sc_in": 4}, return_only_persistent=False), dict(script=case["script"], data_structures=S2), [])
    else:
        c = {c["id"]: c for c in corpus.harvest()}[case["source"]]
        kw = corpus.run_kwargs(c)
        if case.get("format", "vtl") != "vtl":
            kw["time_period_output_format"] = case["format"]
        evaluate(part, case["source"], kw, corpus.sa_kwargs(c), [], case.get("format", "vtl"))
    print("replay failures:", {k: v[2] for k, v in part.failures.items()})
    return 1 if part.failures else 0
