"""C22 — public API calls never modify the caller's arguments.

Oracle: deep snapshot of every argument before the call equals the snapshot after it, whether the call
returns or raises.  Calls: run, run_sdmx, semantic_analysis, validate_dataset, prettify, generate_sdmx.
"""
import copy, os, pathlib, warnings
from verif import core, corpus, eng

LEVEL = "exploration"


def snap(o, depth=0):
    import pandas as pd
    if isinstance(o, pd.DataFrame):
        return ("DataFrame", [repr(c) for c in o.columns], [str(t) for t in o.dtypes], [repr(i) for i in o.index], repr(o.index.name),
                [[repr(v) for v in row] for row in o.itertuples(index=False, name=None)])
    if isinstance(o, dict):
        return ("dict", [(repr(k), snap(v, depth + 1)) for k, v in o.items()])
    if isinstance(o, (list, tuple)):
        return (type(o).__name__, [snap(v, depth + 1) for v in o])
    if isinstance(o, (str, int, float, bool, type(None), pathlib.PurePath)):
        return repr(o)
    if type(o).__name__ == "PandasDataset":
        return ("PandasDataset", repr(o.structure), snap(o.data, depth + 1), repr(getattr(o, "attributes", None)))
    return ("repr", repr(o))


def first_diff(a, b, path="arg"):
    if type(a) != type(b):
        return path
    if isinstance(a, (tuple, list)):
        if len(a) != len(b):
            return path + "#len"
        for i, (x, y) in enumerate(zip(a, b)):
            d = first_diff(x, y, "%s/%s" % (path, a[0] if i and isinstance(a[0], str) else i))
            if d:
                return d
        return None
    return None if a == b else path


BASE_COMPS = [("Id_1", "Integer", "I"), ("Id_2", "String", "I"), ("Me_1", "Number", "M"), ("Me_2", "String", "M"), ("Me_3", "Date", "M"), ("Me_4", "Boolean", "M"), ("At_1", "String", "A")]
SCRIPTS = ["DS_r <- DS_1;", "DS_r <- DS_1 [calc x := Me_1 * sc_1];", "DS_r <- DS_1 [filter Me_2 in vd_1];", "DS_r <- inner_join(DS_1 as a, DS_2 as b keep a#Me_1, b#Me_2);",
           "DS_r <- DS_1 * ;", "DS_r <- DS_9;", "DS_r <- sum(DS_1 group by Id_1); sc_r <- sc_1 + 1;", "DS_r <- eval(sql_1(DS_1) language \"SQL\" returns dataset {identifier<integer> Id_1, measure<number> Me_1});"]


def case_strategy():
    from hypothesis import strategies as st
    row = st.fixed_dictionaries({"Id_1": st.sampled_from(["1", "2", "3", None, "x"]), "Id_2": st.sampled_from(["a", "b", None]), "Me_1": st.sampled_from(["1.5", "-2", None, "abc", ""]),
                                 "Me_2": st.sampled_from(["p", "q", None, ""]), "Me_3": st.sampled_from(["2020-01-31", None, "2020-13-01", "2021-02-28 10:00:00"]),
                                 "Me_4": st.sampled_from(["true", "false", None, "1", "maybe"]), "At_1": st.sampled_from(["k", None])})
    return st.fixed_dictionaries(dict(
        api=st.sampled_from(["run", "run", "run", "semantic_analysis", "validate_dataset", "validate_dataset", "prettify", "generate_sdmx", "run_sdmx"]),
        script=st.sampled_from(SCRIPTS), rows=st.lists(row, min_size=0, max_size=5),
        columns=st.sampled_from(["exact", "extra", "missing_measure", "missing_id", "bom", "shuffled"]),
        dtype=st.sampled_from(["object", "native", "category", "string"]), index=st.sampled_from(["default", "shifted", "named", "strings"]),
        structure_form=st.sampled_from(["dict", "list"]), output=st.sampled_from([None, None, "csv", "parquet"]), rop=st.booleans(),
        tpf=st.sampled_from(["vtl", "natural"]), type_key=st.sampled_from(["type", "type", "data_type"])))


def build_args(c, tmp):
    import pandas as pd
    comps = [eng.comp(*x) for x in BASE_COMPS]
    S = eng.structures(eng.structure("DS_1", comps), eng.structure("DS_2", comps), scalars=[("sc_1", "Integer")])
    if c.get("type_key") == "data_type":  # legacy spelling accepted by the structure loader
        for d in S["datasets"]:
            for comp in d["DataStructure"]:
                comp["data_type"] = comp.pop("type")
    cols = [x[0] for x in BASE_COMPS]
    rows = c["rows"]
    def mkdf():
        data = {}
        for col in cols:
            vals = [r[col] for r in rows]
            if c["dtype"] == "native":
                try:
                    if col == "Id_1": vals = [int(v) if v is not None else None for v in vals]
                    if col == "Me_1": vals = [float(v) if v not in (None, "") else None for v in vals]
                    if col == "Me_4": vals = [{"true": True, "false": False}.get(v, None) for v in vals]
                except ValueError:
                    pass
            data[col] = pd.Series(vals, dtype="object" if c["dtype"] in ("object", "native", "category") else "string")
            if c["dtype"] == "native" and col in ("Me_1",):
                try: data[col] = data[col].astype("float64")
                except Exception: pass
            if c["dtype"] == "category" and col in ("Id_2", "Me_2"):
                data[col] = data[col].astype("category")
        df = pd.DataFrame(data)
        if c["columns"] == "extra": df["EXTRA"] = "e"
        elif c["columns"] == "missing_measure": df = df.drop(columns=["Me_2"])
        elif c["columns"] == "missing_id": df = df.drop(columns=["Id_2"])
        elif c["columns"] == "bom": df = df.rename(columns={"Id_1": "﻿Id_1"})
        elif c["columns"] == "shuffled": df = df[list(reversed(df.columns))]
        if c["index"] == "shifted": df.index = range(10, 10 + len(df))
        elif c["index"] == "named": df.index = pd.RangeIndex(len(df), name="idx")
        elif c["index"] == "strings": df.index = ["r%d" % i for i in range(len(df))]
        return df
    dps = {"DS_1": mkdf(), "DS_2": mkdf()}
    structures = S if c["structure_form"] == "dict" else [{"datasets": [S["datasets"][0]], "scalars": S["scalars"]}, {"datasets": [S["datasets"][1]]}]
    vd = {"name": "vd_1", "type": "String", "setlist": ["p", "q"]}
    er = {"name": "sql_1", "query": "SELECT Id_1, Me_1 FROM DS_1"}
    sv = {"sc_1": 3}
    api = c["api"]
    if api == "run":
        kw = dict(script=c["script"], data_structures=structures, datapoints=dps, value_domains=vd, external_routines=er, scalar_values=sv,
                  return_only_persistent=c["rop"], time_period_output_format=c["tpf"])
        if c["output"]:
            kw.update(output_folder=os.path.join(tmp, "out"), output_format=c["output"])
    elif api == "semantic_analysis":
        kw = dict(script=c["script"], data_structures=structures, value_domains=vd, external_routines=er)
    elif api == "validate_dataset":
        kw = dict(data_structures=structures, datapoints=dps, scalar_values=sv)
    elif api in ("prettify", "generate_sdmx"):
        kw = dict(script=c["script"])
        if api == "generate_sdmx":
            kw.update(agency_id="MD", id="X")
    else:  # run_sdmx
        from pysdmx.model import Schema, Components, Component, Role, DataType, Concept
        from pysdmx.io.pd import PandasDataset
        m = {"Integer": DataType.INTEGER, "String": DataType.STRING, "Number": DataType.DOUBLE, "Date": DataType.DATE, "Boolean": DataType.BOOLEAN}
        r = {"I": Role.DIMENSION, "M": Role.MEASURE, "A": Role.ATTRIBUTE}
        pcs = Components([Component(id=n, required=(ro == "I"), role=r[ro], concept=Concept(id=n), local_dtype=m[t], **({"attachment_level": "O"} if ro == "A" else {})) for n, t, ro in BASE_COMPS])
        sch = Schema(context="datastructure", agency="MD", id="DS_1", components=pcs, version="1.0")
        script = c["script"] if "DS_2" not in c["script"] and "sc_1" not in c["script"] and "vd_1" not in c["script"] and "sql_1" not in c["script"] else "DS_r <- DS_1;"
        kw = dict(script=script, datasets=[PandasDataset(structure=sch, data=dps["DS_1"])], mappings={"DataStructure=MD:DS_1(1.0)": "DS_1"}, return_only_persistent=c["rop"])
    return api, kw


def call(api, kw):
    import vtlengine
    return getattr(vtlengine, api)(**kw)


def evaluate(part, c, tmp, labels):
    try:
        api, kw = build_args(c, tmp)
    except Exception as e:  # pysdmx refuses to build the PandasDataset from invalid data: not a call of the engine
        part.hist["argument_construction_failed:%s" % type(e).__name__] += 1
        return
    before = snap(kw)
    outcome = "returned"
    try:
        call(api, kw)
    except Exception as e:  # noqa
        outcome = "raised:" + eng.classify_exc(e).split(":")[0]
    after = snap(kw)
    nt = outcome != "returned" or c["columns"] != "exact" and api in ("run", "validate_dataset", "run_sdmx")
    part.case(core.fingerprint(c), nt, sample=dict(api=api, outcome=outcome, columns=c["columns"], dtype=c["dtype"], index=c["index"], script=c["script"], rows=len(c["rows"])) if len(part.samples) < 4 else None,
              labels=labels + ["api=" + api, outcome, "columns=" + c["columns"]])
    d = first_diff(before, after)
    if d:
        where = "/".join(x for x in d.split("/")[1:4] if not x.isdigit())
        part.fail("mutated:%s:%s" % (api, where), dict(case=c, outcome=outcome), "%s() changed its argument at %s (call %s)" % (api, d, outcome))


def work_generated(seed, n):
    warnings.filterwarnings("ignore")
    import hypothesis, tempfile, shutil
    from hypothesis import given, settings, HealthCheck
    part = core.Part()
    tmp = tempfile.mkdtemp(prefix="c22_", dir=os.environ.get("VERIF_TMP", "/var/tmp"))

    @settings(max_examples=n, database=None, deadline=None, suppress_health_check=list(HealthCheck), phases=[hypothesis.Phase.generate])
    @hypothesis.seed(seed)
    @given(case_strategy())
    def prop(c):
        evaluate(part, c, tmp, ["generated"])
        shutil.rmtree(os.path.join(tmp, "out"), ignore_errors=True)
    try:
        prop()
    finally:
        shutil.rmtree(tmp, ignore_errors=True)
    return part


def work_corpus(ids):
    """Corpus scripts: structures as dicts (loaded from the json files) and DataFrames read from the CSVs as strings."""
    warnings.filterwarnings("ignore")
    import json, pandas as pd, vtlengine
    part = core.Part()
    cases = {c["id"]: c for c in corpus.harvest()}
    for n, i in enumerate(ids):
        c = cases[i]
        try:
            structs = [json.load(open(p, encoding="utf-8")) for p in c["structs"]]
            dps = {k: pd.read_csv(v, dtype=str, keep_default_na=False, na_values=[""]) for k, v in c["dps"].items() if v}
        except Exception:
            part.hist["unreadable_inputs"] += 1
            continue
        vds = [json.load(open(p, encoding="utf-8")) for p in c["vds"]]
        kw = dict(script=c["script"], data_structures=structs, datapoints=dps, return_only_persistent=False)
        if vds: kw["value_domains"] = vds
        if c["routines"]: kw["external_routines"] = copy.deepcopy(c["routines"])
        api = ["run", "semantic_analysis", "validate_dataset"][n % 3]
        if api == "semantic_analysis": kw.pop("datapoints"); kw.pop("return_only_persistent")
        if api == "validate_dataset": kw = dict(data_structures=structs, datapoints=dps)
        before = snap(kw)
        outcome = "returned"
        try:
            getattr(vtlengine, api)(**kw)
        except Exception as e:  # noqa
            outcome = "raised:" + eng.classify_exc(e).split(":")[0]
        part.case("corpus:%s:%s" % (api, i), True, labels=["corpus", "api=" + api, outcome])
        d = first_diff(before, snap(kw))
        if d:
            where = "/".join(x for x in d.split("/")[1:4] if not x.isdigit())
            part.fail("mutated:%s:%s" % (api, where), dict(source=i, api=api, outcome=outcome), "%s() changed its argument at %s on corpus case %s" % (api, d, i))
    return part


def _dispatch(fname, args):
    return globals()[fname](*args)


def run(ctx):
    ctx.rule = ("cases: generated API calls (6 entry points; DataFrames with exact/extra/missing/BOM/shuffled columns, object/native/category/string dtypes, default/shifted/named/string index, "
                "valid and invalid rows; dict and list structures; value domains, external routines, scalar values; with and without output folder) + corpus cases as dict structures and string DataFrames; "
                "non-trivial = the call raised, or a DataFrame whose columns are not exactly the component list; distinct by generated case")
    os.environ["VERIF_TMP"] = ctx.workdir
    exe = corpus.harvest()
    t = corpus.times()
    exe = [c for c in exe if t.get(c["id"], 0) <= 2.0]
    exe = corpus.rotate(exe, ctx.seed, 160 if ctx.quick else len(exe))
    ids = [c["id"] for c in exe]
    n = 40 if ctx.quick else 1500
    jobs = [("work_corpus", (ids[k::8],)) for k in range(8)] + [("work_generated", (ctx.seed * 1009 + k, n)) for k in range(16)]
    ctx.merge(core.pmap("checks.c22", "_dispatch", jobs, procs=16))
    ctx.assumptions = ["snapshots compare columns, dtypes, index, index name and repr() of every cell; pysdmx objects by repr()"]


def replay(ctx, path):
    import json, tempfile
    warnings.filterwarnings("ignore")
    case = json.load(open(path))["case"]
    if "case" not in case:
        p = work_corpus([case["source"]])
    else:
        p = core.Part()
        evaluate(p, case["case"], tempfile.mkdtemp(dir=ctx.workdir), [])
    print("replay failures:", {k: v[2] for k, v in p.failures.items()})
    return 1 if p.failures else 0
