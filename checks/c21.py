"""C21 — Time_Period values round-trip through every input and output representation (EXHAUSTIVE over periods of a year range).

Oracle: the input-format and output-format tables of docs/data_types.rst transcribed as data.  For every valid period (all
indicators and numbers; W53 / D366 only where the calendar has them) of every year in the range, every documented input spelling
and each of the four output formats:  (1) all spellings are accepted and give the same output; (2) the output is the documented
representation, or a VTL error when the format cannot express the indicator (sdmx_gregorian x S/Q/W); (3) feeding the rendered
value back yields the same rendering; (4) the Python implementation (check_time_period + TimePeriodHandler representations) agrees
with the SQL path of run() on every period.  Bulk evaluation: one dataset per (indicator, spelling, format).
"""
import datetime, warnings
from verif import core, eng

LEVEL = "exploration"
FORMATS = ["vtl", "sdmx_reporting", "sdmx_gregorian", "natural"]


def weeks_in(y):
    return datetime.date(y, 12, 28).isocalendar()[1]


def days_in(y):
    return 366 if (y % 4 == 0 and (y % 100 != 0 or y % 400 == 0)) else 365


def numbers(ind, y):
    return {"A": [1], "S": [1, 2], "Q": [1, 2, 3, 4], "M": list(range(1, 13)), "W": list(range(1, weeks_in(y) + 1)), "D": list(range(1, days_in(y) + 1))}[ind]


# docs/data_types.rst "Accepted input formats" (Formats column)
SPELLINGS = {
    "A": {"YYYY": lambda y, n: "%04d" % y, "YYYYA": lambda y, n: "%04dA" % y, "YYYY-A1": lambda y, n: "%04d-A1" % y},
    "S": {"YYYYSx": lambda y, n: "%04dS%d" % (y, n), "YYYY-Sx": lambda y, n: "%04d-S%d" % (y, n)},
    "Q": {"YYYYQx": lambda y, n: "%04dQ%d" % (y, n), "YYYY-Qx": lambda y, n: "%04d-Q%d" % (y, n)},
    "M": {"YYYYMm": lambda y, n: "%04dM%d" % (y, n), "YYYYMmm": lambda y, n: "%04dM%02d" % (y, n), "YYYY-MM": lambda y, n: "%04d-%02d" % (y, n),
          "YYYY-M": lambda y, n: "%04d-%d" % (y, n), "YYYY-Mxx": lambda y, n: "%04d-M%02d" % (y, n), "YYYY-Mx": lambda y, n: "%04d-M%d" % (y, n)},
    "W": {"YYYYWw": lambda y, n: "%04dW%d" % (y, n), "YYYYWww": lambda y, n: "%04dW%02d" % (y, n), "YYYY-Wxx": lambda y, n: "%04d-W%02d" % (y, n)},
    "D": {"YYYYDd": lambda y, n: "%04dD%d" % (y, n), "YYYYDdd": lambda y, n: "%04dD%02d" % (y, n), "YYYYDddd": lambda y, n: "%04dD%03d" % (y, n),
          "YYYY-Dx": lambda y, n: "%04d-D%d" % (y, n), "YYYY-Dxx": lambda y, n: "%04d-D%02d" % (y, n), "YYYY-Dxxx": lambda y, n: "%04d-D%03d" % (y, n),
          "YYYY-MM-DD": lambda y, n: (datetime.date(y, 1, 1) + datetime.timedelta(days=n - 1)).isoformat()},
}


def expected(fmt, ind, y, n):
    """Documented output representation (None = the format cannot express the indicator)."""
    d = (datetime.date(y, 1, 1) + datetime.timedelta(days=n - 1)).isoformat() if ind == "D" else None
    if fmt == "vtl":
        return "%04d" % y if ind == "A" else "%04d%s%d" % (y, ind, n)
    if fmt == "sdmx_reporting":
        return {"A": "%04d-A1" % y, "S": "%04d-S%d" % (y, n), "Q": "%04d-Q%d" % (y, n), "M": "%04d-M%02d" % (y, n), "W": "%04d-W%02d" % (y, n), "D": "%04d-D%03d" % (y, n)}[ind]
    if fmt == "sdmx_gregorian":
        return {"A": "%04d" % y, "M": "%04d-%02d" % (y, n), "D": d}.get(ind)
    return {"A": "%04d" % y, "S": "%04d-S%d" % (y, n), "Q": "%04d-Q%d" % (y, n), "M": "%04d-%02d" % (y, n), "W": "%04d-W%02d" % (y, n), "D": d}[ind]


def work(jobs):
    """jobs: list of (ind, spelling name, fmt, y0, y1, extra years)"""
    warnings.filterwarnings("ignore")
    import pandas as pd
    from vtlengine import run
    from vtlengine.Exceptions import VTLEngineException
    from vtlengine.DataTypes._time_checking import check_time_period
    from vtlengine.DataTypes.TimeHandling import TimePeriodHandler
    part = core.Part()
    comps = [eng.comp("Id_1", "Integer", "I"), eng.comp("Me_1", "Time_Period")]
    S = eng.structures(eng.structure("DS_1", comps))
    pyrepr = {"vtl": "vtl_representation", "sdmx_reporting": "sdmx_reporting_representation", "sdmx_gregorian": "sdmx_gregorian_representation", "natural": "natural_representation"}
    for ind, sp, fmt, y0, y1, extra in jobs:
        f = SPELLINGS[ind][sp]
        periods = [(y, n) for y in sorted(set(range(y0, y1 + 1)) | set(extra)) for n in numbers(ind, y)]
        texts = [f(y, n) for y, n in periods]
        df = pd.DataFrame({"Id_1": range(len(texts)), "Me_1": pd.Series(texts, dtype="object")})
        case = dict(indicator=ind, spelling=sp, format=fmt, years=[y0, y1], extra_years=list(extra), example=texts[0])
        part.evaluations += len(texts)
        part.nontrivial.update("%s:%s:%s:%d:%d" % (ind, sp, fmt, y, n) for y, n in periods[:: max(1, len(periods) // 400)])
        part.hist["bulk_runs"] += 1
        part.hist["ind=%s" % ind] += len(texts)
        if len(part.samples) < 3:
            part.samples.append(case)
        want = [expected(fmt, ind, y, n) for y, n in periods]
        try:
            res = run(script="R <- DS_1;", data_structures=S, datapoints={"DS_1": df}, time_period_output_format=fmt)
            out = dict(zip(res["R"].data["Id_1"].tolist(), res["R"].data["Me_1"].tolist()))
            outcome = "ok"
        except VTLEngineException as e:
            outcome, err = "vtl", e
        except Exception as e:  # noqa
            part.fail("raw:%s:%s:%s" % (type(e).__name__, ind, fmt), case, "%s: %s" % (type(e).__name__, str(e)[:200]))
            continue
        if want[0] is None:
            if outcome == "ok":
                part.fail("unsupported_indicator_rendered:%s:%s" % (ind, fmt), case, "format %s cannot express %s but run returned %r" % (fmt, ind, out.get(0)))
            continue
        if outcome != "ok":
            # find the first offending value by bisection-free retry on small slices is expensive: report the spelling
            part.fail("rejects_documented_spelling:%s:%s" % (ind, sp), dict(case, error=str(err)[:200]), "documented spelling rejected: %s" % str(err)[:200])
            continue
        bad = [(texts[i], out.get(i), want[i]) for i in range(len(texts)) if eng.norm(out.get(i)) != want[i]]
        if bad:
            y_ = periods[[t for t in texts].index(bad[0][0])][0]
            kind = "last_week_or_day" if bad[0][0].endswith(("W53", "W52", "D366", "D365", "-12-31", "-12-30")) else "general"
            part.fail("wrong_rendering:%s:%s:%s:%s" % (ind, sp, fmt, kind), dict(case, input=bad[0][0], got=bad[0][1], documented=bad[0][2], n_bad=len(bad)), "input %r rendered %r, documented %r (%d of %d values differ)" % (bad[0] + (len(bad), len(texts))))
            continue
        # (3) round trip: rendered values as input again
        df2 = pd.DataFrame({"Id_1": range(len(texts)), "Me_1": pd.Series([out[i] for i in range(len(texts))], dtype="object")})
        try:
            res2 = run(script="R <- DS_1;", data_structures=S, datapoints={"DS_1": df2}, time_period_output_format=fmt)
            out2 = dict(zip(res2["R"].data["Id_1"].tolist(), res2["R"].data["Me_1"].tolist()))
            bad2 = [(out[i], out2.get(i)) for i in range(len(texts)) if out2.get(i) != out[i]]
            if bad2:
                part.fail("round_trip_changes_value:%s:%s" % (ind, fmt), dict(case, rendered=bad2[0][0], again=bad2[0][1]), "rendered %r fed back gives %r" % bad2[0])
        except Exception as e:  # noqa
            part.fail("round_trip_rejected:%s:%s:%s" % (ind, fmt, eng.classify_exc(e).split(":")[0]), dict(case, rendered=out.get(0)), "rendered values rejected as input: %s" % str(e)[:200])
        # (5) the spelling denotes the same period as the first documented spelling, observed inside a script (once per spelling)
        first = sorted(SPELLINGS[ind])[0]
        if fmt == "vtl" and sp != first:
            comps2 = [eng.comp("Id_1", "Integer", "I"), eng.comp("Me_1", "Time_Period"), eng.comp("Me_2", "Time_Period")]
            df3 = pd.DataFrame({"Id_1": range(len(texts)), "Me_1": pd.Series(texts, dtype="object"), "Me_2": pd.Series([SPELLINGS[ind][first](y, n) for y, n in periods], dtype="object")})
            try:
                r3 = run(script="R <- DS_1 [calc eq := Me_1 = Me_2];", data_structures=eng.structures(eng.structure("DS_1", comps2)), datapoints={"DS_1": df3})["R"].data
                ne = r3[r3["eq"] != True]  # noqa: E712
                part.hist["same_period_in_script_compared"] += len(r3)
                if len(ne):
                    i0 = int(ne["Id_1"].iloc[0])
                    part.fail("spellings_denote_different_periods:%s:%s" % (ind, sp), dict(case, a=texts[i0], b=SPELLINGS[ind][first](*periods[i0]), n_bad=len(ne)), "%r = %r is not true inside a script (%d of %d)" % (texts[i0], SPELLINGS[ind][first](*periods[i0]), len(ne), len(r3)))
            except Exception as e:  # noqa
                part.fail("spellings_compare_raises:%s:%s" % (ind, sp), case, "%s: %s" % (type(e).__name__, str(e)[:200]))
        # (4) Python implementation on a stride of the periods (all of them in the thorough tier through smaller year ranges)
        stride = max(1, len(texts) // 600)
        century = [i for i, (y, n) in enumerate(periods) if y % 100 == 0 and ind == "D" and n in (59, 60, 61, 365, 366)]
        for i in sorted(set(range(0, len(texts), stride)) | set(century)):
            try:
                py = getattr(TimePeriodHandler(check_time_period(texts[i])), pyrepr[fmt])()
            except Exception as e:  # noqa
                py = "%s: %s" % (type(e).__name__, str(e)[:80])
            part.hist["python_vs_sql_compared"] += 1
            if py != out[i]:
                part.fail("python_sql_disagree:%s:%s:%s" % (ind, sp, fmt), dict(case, input=texts[i], python=py, sql=out[i]), "input %r: Python %r, SQL path %r" % (texts[i], py, out[i]))
                break
    return part


def work_far_years(seed, n):
    """Hypothesis sample of years 1..9999 (outside the exhaustive range)."""
    warnings.filterwarnings("ignore")
    import hypothesis, pandas as pd
    from hypothesis import given, settings, HealthCheck, strategies as st
    from vtlengine import run
    part = core.Part()
    comps = [eng.comp("Id_1", "Integer", "I"), eng.comp("Me_1", "Time_Period")]
    S = eng.structures(eng.structure("DS_1", comps))

    @settings(max_examples=n, database=None, deadline=None, suppress_health_check=list(HealthCheck), phases=[hypothesis.Phase.generate])
    @hypothesis.seed(seed)
    @given(st.lists(st.tuples(st.integers(1, 9999), st.sampled_from("ASQMWD"), st.integers(0, 10 ** 6)), min_size=1, max_size=30), st.sampled_from(FORMATS))
    def prop(items, fmt):
        rows, want = [], []
        for y, ind, k in items:
            nums = numbers(ind, y)
            nn = nums[k % len(nums)]
            sp = sorted(SPELLINGS[ind])[k % len(SPELLINGS[ind])]
            if expected(fmt, ind, y, nn) is None:
                continue
            rows.append(SPELLINGS[ind][sp](y, nn)); want.append(expected(fmt, ind, y, nn))
        if not rows:
            return
        case = dict(format=fmt, inputs=rows[:10])
        part.case(core.fingerprint([rows, fmt]), True, sample=case if len(part.samples) < 2 else None, labels=["far_years"])
        try:
            res = run(script="R <- DS_1;", data_structures=S, datapoints={"DS_1": pd.DataFrame({"Id_1": range(len(rows)), "Me_1": pd.Series(rows, dtype="object")})}, time_period_output_format=fmt)
            out = dict(zip(res["R"].data["Id_1"].tolist(), res["R"].data["Me_1"].tolist()))
        except Exception as e:  # noqa
            ys = sorted({int(r[:4]) for r in rows})
            part.fail("far_years:%s:%s" % (eng.classify_exc(e).split(":")[0], "year<1800" if ys[0] < 1800 else "year>=1800"), case, "%s: %s" % (type(e).__name__, str(e)[:200]))
            return
        for i, w in enumerate(want):
            if out.get(i) != w:
                part.fail("far_years:wrong_rendering:%s" % fmt, dict(case, input=rows[i], got=out.get(i), documented=w), "input %r rendered %r, documented %r" % (rows[i], out.get(i), w))
                return
    prop()
    prop.hypothesis.inner_test([(1, "A", 0), (497, "W", 18), (79, "M", 0), (42, "D", 359)], "vtl")   # deterministic probe of the years < 1000 class
    return part


def _dispatch(fname, args):
    return globals()[fname](*args)


def run(ctx):
    y0, y1 = (1996, 2032) if ctx.quick else (1900, 2100)
    extra = (1900, 1901, 2000, 2099, 2100)   # century years (1900 / 2100 not leap, 2000 leap) are always included
    ctx.rule = ("EXHAUSTIVE for years %d-%d (plus 1900, 1901, 2000, 2099, 2100): every valid period of every indicator (W53 / D366 only where the ISO / Gregorian calendar has them) x every documented input spelling x 4 output formats, "
                "evaluated in bulk (one dataset per indicator, spelling and format), plus a Hypothesis sample of years 1-9999; every (period, spelling, format) triple is a distinct non-trivial case "
                "(distinct_nontrivial counts a 1/N stride of them to bound memory)" % (y0, y1))
    ctx.exhaustive = True
    jobs = [(ind, sp, fmt, y0, y1, extra) for ind in "ASQMWD" for sp in SPELLINGS[ind] for fmt in FORMATS]
    jobs.sort(key=lambda j: -{"D": 6, "W": 3, "M": 2}.get(j[0], 1))
    shards = [jobs[k::15] for k in range(15)]
    ctx.merge(core.pmap("checks.c21", "_dispatch", [("work", (s,)) for s in shards] + [("work_far_years", (ctx.seed * 1009, 30 if ctx.quick else 400))], procs=16))
    ctx.extra.update(year_range=[y0, y1], spellings={k: sorted(v) for k, v in SPELLINGS.items()})
    ctx.assumptions = ["paddings the docs' output table does not show (single-digit weeks / days) follow the month example of the same format: vtl unpadded, sdmx_reporting and natural zero-padded",
                       "the day spellings are taken from the Formats column (YYYYD[dd]d, YYYY-D[xx]x); the odd examples '2020D-1' of the Examples column are not required"]


def replay(ctx, path):
    import json
    c = json.load(open(path))["case"]
    if "indicator" in c:
        p = work([(c["indicator"], c["spelling"], c["format"], c["years"][0], c["years"][1], tuple(c.get("extra_years", ())))])
    else:
        p = work_far_years(1, 30)
    print("replay failures:", {k: v[2] for k, v in p.failures.items()})
    return 1 if p.failures else 0
