"""C30 — numeric precision settings are applied and validated as documented (EXHAUSTIVE over settings).

Oracle: docs/environment_variables.rst: OUTPUT_NUMBER_SIGNIFICANT_DIGITS (DuckDB DECIMAL scale) accepts 6..15 or -1 (= 15), default 10;
VTL_DUCKDB_DECIMAL_WIDTH accepts 6..38 or -1 (= 38), default 28; anything else => the configuration error 0-4-1-1 (a VTL error), never a
raw duckdb error, never silent acceptance.  Under an accepted setting: a Number input is stored rounded to the scale, values that do
not fit the precision are rejected with a VTL error, sums and differences equal exact decimal arithmetic at that scale (up to float conversion).
Part A: every integer in -5..45 for each variable (the other unset) and the boundary cross product, each in a FRESH subprocess.
Part B: Hypothesis sequences of settings within ONE process (a rejected or unusual setting must not leak into later runs).
"""
import decimal, json, os, subprocess, sys, warnings
from verif import core

LEVEL = "exploration"
decimal.getcontext().prec = 90
SCALE_VAR, WIDTH_VAR = "OUTPUT_NUMBER_SIGNIFICANT_DIGITS", "VTL_DUCKDB_DECIMAL_WIDTH"


def expected(scale, width):
    """-> ('reject', None) | ('accept', (effective_width, effective_scale)); None = variable unset."""
    def eff(v, lo, hi, default):
        if v is None:
            return default
        if v == -1:
            return hi
        return v if lo <= v <= hi else "bad"
    s, w = eff(scale, 6, 15, 10), eff(width, 6, 38, 28)
    if s == "bad" or w == "bad":
        return "reject", None
    return "accept", (w, s)


PROBE = r'''
import json, os, sys, warnings
warnings.filterwarnings("ignore")
sys.path.insert(0, %(lib)r)
from verif import shim; shim.install()
import pandas as pd
from vtlengine import run
from vtlengine.Exceptions import VTLEngineException
S = {"datasets": [{"name": n, "DataStructure": [{"name": "Id_1", "type": "Integer", "role": "Identifier", "nullable": False}, {"name": "Me_1", "type": "Number", "role": "Measure", "nullable": True}]} for n in ("DS_1", "DS_2")]}
def one(values1, values2, script, csv=False):
    import tempfile, shutil, pathlib
    tmp = None
    try:
        dps = {"DS_1": pd.DataFrame({"Id_1": list(range(len(values1))), "Me_1": pd.Series(values1, dtype="object")}),
               "DS_2": pd.DataFrame({"Id_1": list(range(len(values2))), "Me_1": pd.Series(values2, dtype="object")})}
        if csv:
            tmp = tempfile.mkdtemp(prefix="c30_", dir="/var/tmp")
            for k in list(dps):
                p = pathlib.Path(tmp) / (k + ".csv")
                p.write_text("Id_1,Me_1\n" + "".join("%%d,%%s\n" %% (i, v) for i, v in enumerate(values1 if k == "DS_1" else values2)))
                dps[k] = p
        r = run(script=script, data_structures=S, datapoints=dps, return_only_persistent=False)
        out = {}
        for k, v in r.items():
            if hasattr(v, "data"):
                out[k] = [[int(a), (None if b != b or b is None else repr(float(b)))] for a, b in v.data[["Id_1", "Me_1"]].itertuples(index=False, name=None)] if "Id_1" in v.data.columns else [[0, None if v.data.iloc[0, 0] != v.data.iloc[0, 0] else repr(float(v.data.iloc[0, 0]))]]
        return {"outcome": "ok", "results": out}
    except VTLEngineException as e:
        return {"outcome": "vtl", "code": e.args[1] if len(e.args) > 1 else None, "msg": str(e)[:200]}
    except Exception as e:
        return {"outcome": "raw", "type": type(e).__name__, "msg": str(e)[:200]}
    finally:
        if tmp:
            shutil.rmtree(tmp, ignore_errors=True)
out = []
for job in json.load(sys.stdin):
    for k in (%(scale)r, %(width)r):
        os.environ.pop(k, None)
    for k, v in job["env"].items():
        os.environ[k] = v
    out.append(one(job["v1"], job["v2"], job["script"], job.get("csv", False)))
print("RESULT" + json.dumps(out))
'''


def run_jobs(jobs):
    """Run a list of jobs (env, v1, v2, script) sequentially inside ONE fresh subprocess."""
    code = PROBE % dict(lib=os.path.join(core.VERIF, "lib"), scale=SCALE_VAR, width=WIDTH_VAR)
    env = dict(os.environ)
    env.pop(SCALE_VAR, None); env.pop(WIDTH_VAR, None)
    p = subprocess.run([sys.executable, "-c", code], input=json.dumps(jobs), capture_output=True, text=True, env=env, timeout=600)
    for line in p.stdout.splitlines():
        if line.startswith("RESULT"):
            return json.loads(line[6:])
    raise core.HarnessError("probe subprocess failed: %s" % p.stderr[-500:])


def q(v, scale):
    return decimal.Decimal(v).quantize(decimal.Decimal(1).scaleb(-scale), rounding=decimal.ROUND_HALF_UP)


def values_for(width, scale):
    """Number inputs exercising the configured digits: -> (fitting values, one value beyond the range)"""
    intd = width - scale
    big = "4" * min(intd, 15) if intd > 0 else "0"   # sums and differences of two such values still fit the precision
    v = ["0", "1.5", "-2.25", "0." + "1" * scale, "0." + "0" * (scale - 1) + "14", "0." + "0" * (scale - 1) + "16", "0." + "0" * scale + "5", big + ".5", "-" + big + ".25", "123.456789012345678"]
    if intd < 4:
        v = [x for x in v if len(x.lstrip("-").split(".")[0]) <= max(intd, 1) and (intd > 0 or x.lstrip("-").split(".")[0] == "0")]
    beyond = "1" + "0" * intd + ".0"
    return v, beyond


def check_setting(part, scale, width, res_store, res_sum, res_beyond, label, case):
    exp, eff = expected(scale, width)
    key_s = "scale=%s,width=%s" % (scale, width)
    if res_store["outcome"] == "raw":
        part.fail("raw:%s:%s" % (res_store["type"], "outside_ranges" if exp == "reject" else "inside_ranges:w%s<s%s" % (eff[0], eff[1]) if eff[0] < eff[1] else "inside_ranges"), case, "%s: %s" % (res_store["type"], res_store["msg"]))
        return
    if exp == "reject":
        if res_store["outcome"] == "ok":
            part.fail("accepts_out_of_range:%s" % ("scale" if expected(scale, None)[0] == "reject" else "width"), case, "setting %s accepted" % key_s)
        elif res_store.get("code") != "0-4-1-1":
            part.fail("wrong_error_for_out_of_range:%s" % res_store.get("code"), case, "setting %s rejected with %s" % (key_s, res_store.get("msg")))
        return
    if res_store["outcome"] == "vtl" and res_store.get("code") == "0-4-1-1" and eff[0] < eff[1]:
        return  # both values are inside their documented ranges but DECIMAL(width, scale) needs width >= scale: the configuration error is accepted
    if res_store["outcome"] != "ok":
        part.fail("rejects_documented_setting:%s:%s" % (res_store.get("code"), "w<s" if eff[0] < eff[1] else "w>=s"), case, "documented setting %s rejected: %s" % (key_s, res_store.get("msg")))
        return
    w, s = eff
    vals, beyond = case["values"], case["beyond"]
    got = dict((a, b) for a, b in res_store["results"]["R"])
    for i, v in enumerate(vals):
        want = float(q(v, s))
        g = got.get(i)
        if g is None or abs(float(g) - want) > 1e-15 * max(1.0, abs(want)) * 4:
            part.fail("stored_value_not_rounded_to_scale", dict(case, value=v), "input %s stored as %s, expected %r at scale %d" % (v, g, want, s))
            return
    if res_sum["outcome"] == "ok":
        gs = dict((a, b) for a, b in res_sum["results"]["P"]); gd = dict((a, b) for a, b in res_sum["results"]["D"])
        for i, v in enumerate(vals):
            a, b = q(v, s), q(vals[(i + 1) % len(vals)], s)
            for name, g, want in (("sum", gs.get(i), a + b), ("difference", gd.get(i), a - b)):
                if len(want.as_tuple().digits) - s > w - s and abs(want) >= decimal.Decimal(10) ** (w - s):
                    continue  # the exact result does not fit the configured precision
                if g is None or abs(float(g) - float(want)) > 4e-16 * max(1.0, abs(float(want))) + 0:
                    part.fail("arithmetic_not_exact_at_scale:%s" % name, dict(case, operands=[str(a), str(b)]), "%s of %s and %s = %s, exact decimal %s" % (name, a, b, g, want))
                    return
    elif res_sum["outcome"] == "raw":
        part.fail("raw:%s:arithmetic" % res_sum["type"], case, res_sum["msg"])
    if res_beyond["outcome"] == "ok":
        part.fail("accepts_value_beyond_precision", dict(case, value=beyond), "value %s accepted under DECIMAL(%d,%d)" % (beyond, w, s))
    elif res_beyond["outcome"] == "raw":
        part.fail("raw:%s:value_beyond_precision" % res_beyond["type"], dict(case, value=beyond), res_beyond["msg"])


def jobs_for(scale, width):
    env = {}
    if scale is not None:
        env[SCALE_VAR] = str(scale)
    if width is not None:
        env[WIDTH_VAR] = str(width)
    exp, eff = expected(scale, width)
    w, s = eff if eff else (28, 10)
    vals, beyond = values_for(max(w, s), s)
    rot = vals[1:] + vals[:1]
    jobs = [dict(env=env, v1=vals, v2=[], script="R <- DS_1;"), dict(env=env, v1=vals, v2=rot, script="P <- DS_1 + DS_2; D <- DS_1 - DS_2;"), dict(env=env, v1=[beyond], v2=[], script="R <- DS_1;")]
    # values that need ALL configured digits: their difference is small and exactly representable, so a loss of digits on load is visible
    intd = max(w, s) - s
    if exp == "accept" and w >= s and intd >= 1:
        hi = "1234567890123456789012345678901234567890"[:intd]
        frac = "1234567891234567"[:s]
        a, b = [hi + "." + frac, hi + "." + "0" * s], [hi + "." + "0" * s, hi + "." + frac]
        for csv in (False, True):
            jobs.append(dict(env=env, v1=a, v2=b, script="D <- DS_1 - DS_2;", csv=csv))
    return jobs, vals, beyond


def work_fresh(settings):
    """Part A: each setting in its own fresh subprocess."""
    part = core.Part()
    for scale, width in settings:
        jobs, vals, beyond = jobs_for(scale, width)
        res = run_jobs(jobs)
        case = dict(mode="fresh_process", scale=scale, width=width, values=vals, beyond=beyond)
        exp, _ = expected(scale, width)
        boundary = any(v in (-1, 5, 6, 15, 16, 38, 39) for v in (scale, width) if v is not None)
        part.case("fresh:%s:%s" % (scale, width), True, sample=case if len(part.samples) < 2 else None, labels=["fresh", "expected=" + exp] + (["boundary"] if boundary else []))
        check_setting(part, scale, width, res[0], res[1], res[2], "fresh", case)
        _, eff = expected(scale, width)
        for r, form in zip(res[3:], ("string DataFrame", "CSV file")):
            s_ = eff[1]
            want = decimal.Decimal("0." + "1234567891234567"[:s_])
            if r["outcome"] == "raw":
                part.fail("raw:%s:full_precision_values" % r["type"], dict(case, form=form), r["msg"])
            elif r["outcome"] == "ok":
                got = dict((a, b) for a, b in r["results"]["D"])
                for i, sign in ((0, 1), (1, -1)):
                    g = got.get(i)
                    if g is None or abs(float(g) - float(sign * want)) > 1e-15:
                        part.fail("full_precision_difference_not_exact:%s" % form.split()[0].lower(), dict(case, form=form, values=jobs[3]["v1"]), "difference of two values using all %d digits from a %s: %s, exact decimal %s" % (eff[0], form, g, sign * want))
                        break
            else:
                part.hist["full_precision_values_rejected:%s" % r.get("code")] += 1
    return part


def work_sequences(seed, n):
    """Part B: sequences of settings inside one process: each step must behave as in a fresh process."""
    warnings.filterwarnings("ignore")
    import hypothesis
    from hypothesis import given, settings, HealthCheck, strategies as st
    part = core.Part()
    val = st.one_of(st.none(), st.sampled_from([-1, 5, 6, 10, 15, 16, 28, 38, 39, 0, 7]), st.integers(-5, 45))
    step = st.tuples(val, val)

    @settings(max_examples=n, database=None, deadline=None, suppress_health_check=list(HealthCheck), phases=[hypothesis.Phase.generate])
    @hypothesis.seed(seed)
    @given(st.lists(step, min_size=2, max_size=4))
    def prop(steps):
        jobs, meta = [], []
        for scale, width in steps:
            j, vals, beyond = jobs_for(scale, width)
            jobs += j[:3]; meta.append((scale, width, vals, beyond))
        res = run_jobs(jobs)
        part.case(core.fingerprint(steps), any(expected(a, b)[0] == "reject" for a, b in steps[:-1]), sample=dict(mode="sequence", steps=steps) if len(part.samples) < 2 else None, labels=["sequence", "len=%d" % len(steps)])
        for i, (scale, width, vals, beyond) in enumerate(meta):
            sub = core.Part()
            case = dict(mode="sequence", steps=steps, step=i, scale=scale, width=width, values=vals, beyond=beyond)
            check_setting(sub, scale, width, res[3 * i], res[3 * i + 1], res[3 * i + 2], "sequence", case)
            for k, v in sub.failures.items():
                part.fail(("sequence:after_%s:" % ("rejected" if any(expected(a, b)[0] == "reject" for a, b in steps[:i]) else "accepted")) + k if i else k, v[1], v[2])
    prop()
    return part


def work_nonint():
    part = core.Part()
    for var in (SCALE_VAR, WIDTH_VAR):
        for v in ["abc", "", "10.5", " 8"]:
            res = run_jobs([dict(env={var: v}, v1=["1.5"], v2=[], script="R <- DS_1;")])[0]
            case = dict(mode="non_integer", variable=var, value=v)
            part.case("nonint:%s:%r" % (var, v), True, labels=["non_integer"])
            if res["outcome"] == "raw":
                part.fail("raw:%s:non_integer_setting" % res["type"], case, res["msg"])
            elif res["outcome"] == "ok" and v.strip() not in ("8",):
                part.fail("accepts_non_integer_setting", case, "%s=%r accepted" % (var, v))
    return part


def _dispatch(fname, args):
    return globals()[fname](*args)


def run(ctx):
    ctx.rule = ("EXHAUSTIVE (Part A): every integer -5..45 for OUTPUT_NUMBER_SIGNIFICANT_DIGITS with the width unset, every integer -5..45 for VTL_DUCKDB_DECIMAL_WIDTH with the scale unset, and the cross product of the "
                "boundary band {-1,5,6,15,16} x {-1,5,6,10,15,16,28,38,39} (thorough: full 51x51), each in a fresh subprocess, with Number inputs needing all configured digits, sub-scale digits and a value beyond the range; "
                "Part B: Hypothesis sequences of 2-4 settings in one process; non-trivial = every setting (sequences: a rejected setting followed by another run)")
    ctx.exhaustive = True
    rng = list(range(-5, 46))
    sets = [(s, None) for s in rng] + [(None, w) for w in rng] + [(None, None)]
    if ctx.quick:
        sets += [(s, w) for s in (-1, 5, 6, 15, 16) for w in (-1, 5, 6, 10, 15, 16, 28, 38, 39)]
    else:
        sets += [(s, w) for s in rng for w in rng]
    sets = sorted(set(sets), key=repr)
    jobs = [("work_fresh", (sets[k::14],)) for k in range(14)] + [("work_sequences", (ctx.seed * 1009, 12 if ctx.quick else 300)), ("work_nonint", ())]
    ctx.merge(core.pmap("checks.c30", "_dispatch", jobs, procs=16))
    ctx.assumptions = ["returned values are float64: stored values / sums / differences are compared with the exact decimal result after float conversion with a tolerance of a few ulps",
                       "a setting pair inside both documented ranges whose width is smaller than its scale (e.g. width 6, scale 10) is still required to be accepted or rejected with a VTL error, never a raw duckdb error"]


def replay(ctx, path):
    c = json.load(open(path))["case"]
    if c.get("mode") == "fresh_process":
        p = work_fresh([(c["scale"], c["width"])])
    elif c.get("mode") == "non_integer":
        p = work_nonint()
    else:
        print("sequence replay: steps", c.get("steps")); p = core.Part()
        jobs, meta = [], []
        for scale, width in c["steps"]:
            j, vals, beyond = jobs_for(scale, width); jobs += j; meta.append((scale, width, vals, beyond))
        res = run_jobs(jobs)
        for i, (scale, width, vals, beyond) in enumerate(meta):
            check_setting(p, scale, width, res[3 * i], res[3 * i + 1], res[3 * i + 2], "sequence", dict(c, step=i, values=vals, beyond=beyond))
    print("replay failures:", {k: v[2] for k, v in p.failures.items()})
    return 1 if p.failures else 0
