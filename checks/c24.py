"""C24 — prettify preserves meaning and is idempotent.

Oracle (round trip + metamorphic): for every parseable script s
 (1) prettify(s) parses; (2) AST(prettify(s)) == AST(s) ignoring positions and comments;
 (3) prettify(prettify(s)) == prettify(s); (4) every comment of s occurs in prettify(s) (same multiset);
 (5) for executable cases run(prettify(s)) == run(s) as keyed sets.
Generators: every corpus script (+ tests/AST/data/prettier sources) and Hypothesis-generated scripts
stressing number literals, strings, null positions, reserved-word names and comments.
"""
import collections, glob, os, re, warnings
from verif import core, corpus, astnorm, cmp, eng

LEVEL = "exploration"


def _literal_kind(diff):
    path, a, b = diff
    sa, sb = repr(a), repr(b)
    if ".Constant.value" in path or ".ParamConstant.value" in path:
        ta = a[0] if isinstance(a, tuple) else type(a).__name__
        tb = b[0] if isinstance(b, tuple) else type(b).__name__
        if "float" in (ta, tb):
            return "number_literal"
        return "literal_%s_%s" % (ta, tb)
    return None


def check_script(script, deep=None):
    """-> (key or None, what, facts) ; deep: optional callable(pretty_text) -> run-level diff or None."""
    from vtlengine import prettify
    from vtlengine.API import create_ast
    from vtlengine.AST.ASTComment import create_ast_with_comments
    from vtlengine.Exceptions import VTLEngineException
    facts = {}
    try:
        a0 = create_ast_with_comments(script)
    except VTLEngineException:
        return ("unparseable", None, facts)
    n0 = astnorm.norm(a0)
    c0 = sorted(astnorm.comments(a0))
    facts["comments"] = len(c0)
    try:
        p1 = prettify(script)
    except Exception as e:  # noqa
        return ("prettify_raises:%s:%s" % (type(e).__name__, eng.innermost_frame(e)), "prettify raised %s: %s" % (type(e).__name__, str(e)[:200]), facts)
    try:
        a1 = create_ast_with_comments(p1)
    except VTLEngineException as e:
        return ("output_unparseable", "prettify output does not parse: %s" % str(e)[:300], dict(facts, pretty=p1))
    d = astnorm.first_diff(n0, astnorm.norm(a1))
    if d:
        kind = _literal_kind(d) or ".".join(re.sub(r"\[\d+\]|#len", "", d[0]).split(".")[-4:])
        return ("ast_diff:%s" % kind, "AST differs at %s: %r vs %r" % (d[0], repr(d[1])[:120], repr(d[2])[:120]), dict(facts, pretty=p1))
    c1 = sorted(astnorm.comments(a1))
    if c0 != c1:
        lost = list((collections.Counter(c0) - collections.Counter(c1)).elements())[:3]
        extra = list((collections.Counter(c1) - collections.Counter(c0)).elements())[:3]
        return ("comments_changed", "comments lost %r / invented %r" % (lost, extra), dict(facts, pretty=p1))
    try:
        p2 = prettify(p1)
    except Exception as e:  # noqa
        return ("prettify2_raises:%s" % type(e).__name__, str(e)[:200], dict(facts, pretty=p1))
    if p2 != p1:
        i = next((k for k, (x, y) in enumerate(zip(p1, p2)) if x != y), min(len(p1), len(p2)))
        return ("not_idempotent", "prettify(prettify(s)) differs at offset %d: %r vs %r" % (i, p1[max(0, i - 20):i + 30], p2[max(0, i - 20):i + 30]), dict(facts, pretty=p1))
    if deep is not None:
        dd = deep(p1)
        if dd:
            return ("run_diff", dd, dict(facts, pretty=p1))
    facts["pretty"] = p1
    return (None, None, facts)


def _nontrivial(script, facts):
    return bool(facts.get("comments")) or bool(re.search(r"\bnull\b", script)) or bool(re.search(r"\d\.\d{4,}|\d{7,}\.\d|\de[+-]?\d", script))


# ---- corpus shard ------------------------------------------------------------
def work_corpus(ids, with_run):
    warnings.filterwarnings("ignore")
    from vtlengine import run
    part = core.Part()
    cases = {c["id"]: c for c in all_sources()}
    for i in ids:
        c = cases[i]
        deep = None
        if with_run and c.get("structs") and not c.get("nondet"):
            def deep(p1, c=c):
                try:
                    r0 = cmp.canon_results(run(**corpus.run_kwargs(c)))
                except Exception:
                    part.hist["run_original_failed"] += 1
                    return None
                try:
                    r1 = cmp.canon_results(run(**corpus.run_kwargs(c, script=p1)))
                except Exception as e:  # noqa
                    return "run(prettify(s)) raised %s: %s while run(s) succeeded" % (type(e).__name__, str(e)[:200])
                part.hist["run_compared"] += 1
                return cmp.diff_results(r0, r1)
        key, what, facts = check_script(c["script"], deep)
        if key == "unparseable":
            part.hist["corpus_unparseable"] += 1
            continue
        nt = _nontrivial(c["script"], facts)
        part.case("corpus:" + i, nt, sample=dict(source=i, script=c["script"][:200]) if nt and len(part.samples) < 2 else None,
                  labels=["corpus"] + (["has_comment"] if facts.get("comments") else []))
        if key:
            part.fail(key, dict(source=i, script=c["script"]), what)
    return part


def all_sources():
    cases = corpus.harvest()
    seen = {c["id"] for c in cases}
    root = os.path.join(core.REPO, "tests")
    for p in sorted(glob.glob(os.path.join(root, "**", "*.vtl"), recursive=True)):
        rid = os.path.relpath(p, root)
        if rid in seen:
            continue
        try:
            cases.append(dict(id=rid, script=open(p, encoding="utf-8").read(), structs=None))
        except Exception:
            pass
    return cases


# ---- generated shard -----------------------------------------------------------
GEN_STRUCT = None


def gen_struct():
    comps = [eng.comp("Id_1", "Integer", "I"), eng.comp("Id_2", "String", "I"), eng.comp("Me_1", "Number"), eng.comp("Me_2", "Integer"),
             eng.comp("Me_3", "String"), eng.comp("Me_4", "Boolean"), eng.comp("date", "Date"), eng.comp("time_period", "Time_Period"),
             eng.comp("At_1", "String", "A")]
    rows = [{"Id_1": 1, "Id_2": "a", "Me_1": 1.5, "Me_2": 3, "Me_3": "x y", "Me_4": True, "date": "2020-01-31", "time_period": "2020Q1", "At_1": "k"},
            {"Id_1": 2, "Id_2": "b", "Me_1": None, "Me_2": -4, "Me_3": None, "Me_4": None, "date": None, "time_period": "2021M03", "At_1": None},
            {"Id_1": 3, "Id_2": "c", "Me_1": -0.000123, "Me_2": 0, "Me_3": "", "Me_4": False, "date": "2021-02-28", "time_period": None, "At_1": "z"}]
    return eng.structures(eng.structure("DS_1", comps), eng.structure("DS_2", comps)), comps, rows


def script_strategy(excl):
    from hypothesis import strategies as st
    digits = st.text("0123456789", min_size=1, max_size=17)
    def num(d):
        i, f, e = d
        return i.lstrip("0") or "0", f, e
    if "number_literal_precision" in excl:
        # F9: prettify rounds non-integer literals with > 6 significant decimals / uses %g: keep literals within what %f / %g preserve
        number = st.builds(lambda i, f: "%d.%s" % (i, f), st.integers(0, 99999), st.text("0123456789", min_size=1, max_size=4).map(lambda s: s.rstrip("0") or "0"))
    else:
        number = st.one_of(
            st.builds(lambda i, f: "%s.%s" % (i.lstrip("0") or "0", f), digits, digits),
            st.sampled_from(["0.1", "0.5", "1.0", "123456789.123456789", "0.000001", "0.0000001", "1234567.5", "0.123456789", "9007199254740993.0", "100000.00001", "00.10", "5.0", "1000000.0"]))
    integer = st.one_of(st.integers(-3, 3).map(abs).map(str), st.sampled_from(["0", "2147483648", "9007199254740993", "9223372036854775807", "00012"]))
    string = st.one_of(st.text("abc xyzÀé€́,;'#()[]{}<>=+-*/\\\t", max_size=8), st.sampled_from(["", " ", "it''s", "a'b", "/* not a comment */", "// no", "null", "line1\nline2", "tab\there", "trailing \nx"])).map(lambda s: '"%s"' % s.replace('"', ""))
    boolean = st.sampled_from(["true", "false"])
    nullv = st.just("null")
    numexpr = st.deferred(lambda: st.one_of(number, integer, st.just("Me_1"), st.just("Me_2"),
                                            st.builds(lambda a, o, b: "%s %s %s" % (a, o, b), numexpr, st.sampled_from(["+", "-", "*"]), numexpr),
                                            st.builds(lambda a: "(%s)" % a, numexpr), st.builds(lambda a: "-%s" % a, number),
                                            st.builds(lambda a, b: "nvl(%s, %s)" % (a, b), st.sampled_from(["Me_1", "Me_2"]), st.one_of(number, integer)),
                                            st.builds(lambda a, b: "round(%s, %s)" % (a, b), numexpr, st.integers(0, 4)),
                                            st.builds(lambda c, a, b: "if %s then %s else %s" % (c, a, b), st.sampled_from(["Me_4", "Me_2 > 0", "isnull(Me_1)"]), numexpr, st.one_of(numexpr, nullv))))
    strexpr = st.one_of(string, st.just("Me_3"), st.builds(lambda a, b: "%s || %s" % (a, b), st.sampled_from(["Me_3", "Id_2"]), string),
                        st.builds(lambda a, b: "nvl(Me_3, %s)" % b, st.none(), string),
                        st.builds(lambda a: "case when Me_2 > 1 then %s when Me_4 then null else Me_3" % a, string))
    boolexpr = st.one_of(boolean, st.builds(lambda a, o, b: "%s %s %s" % (a, o, b), st.sampled_from(["Me_1", "Me_2"]), st.sampled_from([">", "<=", "=", "<>"]), st.one_of(number, integer)),
                         st.builds(lambda s: "Me_3 in {%s}" % s, st.lists(string, min_size=1, max_size=3).map(", ".join)),
                         st.builds(lambda a, b: "between(Me_1, %s, %s)" % (a, b), number, number),
                         st.just("Me_4 and not isnull(Me_3)"), st.just("Me_4 = null"), st.builds(lambda n: "Me_1 > %s or Me_4 xor true" % n, number))
    comment = st.one_of(st.text("abc xyz*/ é", max_size=10).map(lambda s: "/* %s */" % s.replace("*/", "* /")),
                        st.text("abc xyz/*é;", max_size=10).map(lambda s: "// %s\n" % s), st.just("/* multi\n   line */"), st.just("/**/"))
    calc = st.one_of(st.builds(lambda e: "calc x := %s" % e, numexpr), st.builds(lambda e: "calc s := %s" % e, strexpr),
                     st.builds(lambda e: "calc b := %s" % e, boolexpr), st.builds(lambda e: "filter %s" % e, boolexpr),
                     st.builds(lambda e, f: "calc x := %s, attribute y := %s" % (e, f), numexpr, strexpr),
                     st.just("keep Me_1, 'date'"), st.just("drop 'time_period'"), st.just("rename 'date' to d, Me_1 to 'time'"),
                     st.builds(lambda e: "aggr m := sum(Me_1) group by Id_2 having avg(Me_1) > %s" % e, number),
                     st.builds(lambda e: "calc 'date' := 'date', z := %s" % e, numexpr))
    stmt_expr = st.one_of(
        st.builds(lambda cs: "DS_1" + "".join(" [%s]" % c for c in cs), st.lists(calc, min_size=1, max_size=3)),
        st.builds(lambda n: "DS_1#Me_1 * %s" % n, number), st.builds(lambda n, m: "(DS_1#Me_1 + %s) / %s" % (n, m), number, st.sampled_from(["2", "0.25", "4.0"])),
        st.builds(lambda c: "inner_join(DS_1 as a, DS_2 as b %s)" % c, st.sampled_from(["", "filter a#Me_1 > 0.5", "calc q := a#Me_1 + b#Me_2", "keep a#Me_1, b#Me_2"])),
        st.builds(lambda n: "check(DS_1#Me_1 > %s errorcode \"E1\" errorlevel 3 imbalance DS_1#Me_1 - %s invalid)" % (n, n), number),
        st.builds(lambda n: "check(DS_1#Me_1 > %s errorcode null errorlevel null)" % n, number),
        st.just("union(DS_1, DS_2)"), st.just("DS_1 [sub Id_2 = \"a\"]"),
        st.builds(lambda n: "sum(DS_1#Me_1 group by Id_2) + %s" % n, number),
        st.builds(lambda n: "first_value(DS_1#Me_1 over (partition by Id_2 order by Id_1 asc)) - %s" % n, integer),
    )
    def assemble(items):
        out, k = [], 0
        for kind, val, persist, c1, c2 in items:
            k += 1
            out.append("%s%s%s %s %s;%s" % (c1 or "", "\n" if c1 else "", "R_%d" % k, "<-" if persist else ":=", val, (" " + c2) if c2 else ""))
        return "\n".join(out)
    item = st.tuples(st.just("e"), stmt_expr, st.booleans(), st.one_of(st.none(), comment), st.one_of(st.none(), comment))
    rulesets = st.builds(lambda n, s: ("define datapoint ruleset dpr1 (variable Me_1, Me_3) is\n  r1: when Me_1 > %s then Me_3 <> %s errorcode %s errorlevel 2;\n  Me_1 >= 0 errorcode null\nend datapoint ruleset;\nR_dp <- check_datapoint(DS_1, dpr1 all);" % (n, s, s)), number, string)
    hier = st.builds(lambda n: ("define hierarchical ruleset hr1 (variable rule Id_2) is\n  a = b + c errorcode \"x\" errorlevel %s;\n  b >= c - d\nend hierarchical ruleset;\nR_h <- check_hierarchy(DS_1#Me_1, hr1 rule Id_2 non_zero all);" % n), integer)
    udo = st.builds(lambda n: ("define operator f1 (x dataset, k number default %s) returns dataset is x * k + %s end operator;\nR_u <- f1(DS_1#Me_1, %s);" % (n, n, n)), number)
    return st.builds(lambda its, extra: assemble(its) + ("\n" + extra if extra else ""), st.lists(item, min_size=1, max_size=3), st.one_of(st.none(), rulesets, hier, udo))


def work_generated(seed, n, excl):
    warnings.filterwarnings("ignore")
    import hypothesis
    from hypothesis import given, settings, HealthCheck
    from vtlengine import run
    part = core.Part()
    S, comps, rows = gen_struct()
    def dps():
        return {"DS_1": eng.frame(comps, rows), "DS_2": eng.frame(comps, rows[:2])}

    @settings(max_examples=n, database=None, deadline=None, suppress_health_check=list(HealthCheck), phases=[hypothesis.Phase.generate])
    @hypothesis.seed(seed)
    @given(script_strategy(set(excl)))
    def prop(script):
        def deep(p1):
            try:
                r0 = cmp.canon_results(run(script=script, data_structures=S, datapoints=dps(), return_only_persistent=False))
            except Exception:
                part.hist["gen_run_original_failed"] += 1
                return None
            try:
                r1 = cmp.canon_results(run(script=p1, data_structures=S, datapoints=dps(), return_only_persistent=False))
            except Exception as e:  # noqa
                return "run(prettify(s)) raised %s: %s while run(s) succeeded" % (type(e).__name__, str(e)[:200])
            part.hist["run_compared"] += 1
            return cmp.diff_results(r0, r1)
        key, what, facts = check_script(script, deep)
        if key == "unparseable":
            part.hist["gen_unparseable"] += 1
            return
        nt = _nontrivial(script, facts)
        part.case(core.fingerprint(script), nt, sample=dict(source="generated", script=script) if len(part.samples) < 2 else None,
                  labels=["generated"] + (["has_comment"] if facts.get("comments") else []))
        if key:
            part.fail(key, dict(source="generated", script=script), what)
    prop()
    return part


def probe_known(ctx):
    """Dedicated deterministic probes for known findings (they stay excluded from the generator)."""
    part = core.Part()
    for script in ["DS_r <- DS_1 [calc x := 0.123456789 + 1234567.5];"]:
        key, what, facts = check_script(script)
        part.case("probe:" + script, True, labels=["known_finding_probe"])
        if key:
            part.fail(key, dict(source="probe", script=script), what)
    return part


def run(ctx):
    ctx.rule = ("cases: every parseable .vtl of the upstream corpus (round trip; run-level comparison on executable cases) + Hypothesis-generated "
                "scripts over literal/comment/null/reserved-word grammar; non-trivial = script with a comment, a null literal, or a number literal "
                "with >=4 decimals / >=7 integer digits / exponent; distinct by script text")
    excl = sorted(ctx.excluded_keys())
    srcs = all_sources()
    exe = {c["id"] for c in corpus.executable_cases(max_s=3.0 if ctx.quick else None)}
    ids = [c["id"] for c in srcs]
    if ctx.quick:
        ids = [c["id"] for c in corpus.rotate(srcs, ctx.seed, 700)]
    run_ids = [i for i in ids if i in exe]
    if ctx.quick:
        run_ids = run_ids[:150]
    norun = [i for i in ids if i not in set(run_ids)]
    jobs = [("work_corpus", (norun[k::16], False)) for k in range(16)] + [("work_corpus", (run_ids[k::16], True)) for k in range(16)]
    n = 60 if ctx.quick else 1500
    jobs += [("work_generated", (ctx.seed * 1009 + k, n, excl)) for k in range(16)]
    res = core.pmap("checks.c24", "_dispatch", jobs, procs=16)
    ctx.merge(res)
    ctx.merge([probe_known(ctx)])
    for e in excl:
        ctx.part.excluded[e] += 1
    ctx.assumptions = ["parse trees come from the parser stand-in (ANTLR 4.11.1 Java interpreter over the repo's ATN), SLL mode",
                       "run-level equivalence only on corpus cases listed in corpus_baseline.txt and on generated scripts over one fixed 3-row dataset"]


def _dispatch(fname, args):
    return globals()[fname](*args)


def replay(ctx, path):
    import json
    case = json.load(open(path))["case"]
    key, what, facts = check_script(case["script"])
    print("replay:", key, what)
    return 1 if key and key != "unparseable" else 0
