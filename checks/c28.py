"""C28 — viral attributes propagate according to the declared rule.

Generated scripts: one `define viral propagation` rule (enumerated: unary / binary when-clauses with optional default;
aggregate: min max sum avg) + one statement of each operator class over generated data with null and conflicting viral
values.  Oracle = the propagation model the property states, written independently here:
  pair(a, b)       dataset-dataset operators and joins: aggregate -> min/max/sum/avg of the two; enumerated -> first matching
                   binary clause ({v1,v2} = {a,b}), then first matching unary clause (v in {a,b}), else the default (null if none)
  fold(group)      aggregations / analytic windows: aggregate -> the aggregate of the group; enumerated -> fold of pair over the group
                   (unique only when the rule table is associative and commutative over the closure of its values: checked by brute
                   force; for other tables only order independence is asserted)
  single(a)        row-preserving dataset-level operators with an enumerated rule: first unary clause with v = a, else the default
  whole(operand)   row-preserving dataset-level operators with an aggregate rule: the aggregate over every row of the operand
  unchanged        clauses, plain assignment, set operators
  no rule          SemanticError at semantic_analysis()
plus the metamorphic relation: permuting the input rows never changes the result (as a set of datapoints).
"""
import itertools, warnings
from verif import core, eng, cmp

LEVEL = "exploration"
VALUES = ["A", "B", "C"]


# ---------------------------------------------------------------- rule model
def pair_enum(rule, a, b):
    for (v1, v2), res in rule["binary"]:
        if {v1, v2} == {a, b} or (v1 in (a, b) and v2 in (a, b) and v1 != v2):
            return res
    for v, res in rule["unary"]:
        if v in (a, b) and v is not None:
            return res
    return rule["default"]


def single_enum(rule, a):
    for v, res in rule["unary"]:
        if v == a and v is not None:
            return res
    return rule["default"]


def agg_values(fn, vals):
    vals = [v for v in vals if v is not None]
    if not vals:
        return None
    if fn == "min":
        return min(vals)
    if fn == "max":
        return max(vals)
    if fn == "sum":
        return sum(vals)
    return sum(vals) / len(vals)


def closure(rule):
    dom = set(VALUES) | {None, rule["default"]} | {r for _, r in rule["binary"]} | {r for _, r in rule["unary"]}
    return sorted(dom, key=lambda x: (x is None, x or ""))


def is_ac(rule):
    dom = closure(rule)
    f = lambda a, b: pair_enum(rule, a, b)
    for a, b in itertools.product(dom, repeat=2):
        if f(a, b) != f(b, a):
            return False
    for a, b, c in itertools.product(dom, repeat=3):
        if f(f(a, b), c) != f(a, f(b, c)):
            return False
    return True


def fold_enum(rule, vals):
    acc = vals[0]
    for v in vals[1:]:
        acc = pair_enum(rule, acc, v)
    return acc


def render_rule(rule):
    if rule["kind"] == "aggregate":
        return "define viral propagation vp1 (variable At_1) is aggregate %s end viral propagation;" % rule["fn"]
    q = lambda v: '"%s"' % v
    b = ["when %s and %s then %s" % (q(v1), q(v2), q(r)) for (v1, v2), r in rule["binary"]]
    u = ["when %s then %s" % (q(v), q(r)) for v, r in rule["unary"]]
    # declaration order: the relative order inside each kind is kept (it is the priority among clauses of that kind); how binary and
    # unary clauses are interleaved in the text must not matter - binary clauses always take precedence over unary ones
    cl, bi, ui = [], 0, 0
    for pick in (rule.get("interleave") or []) + [0] * len(b) + [1] * len(u):
        if pick == 0 and bi < len(b):
            cl.append(b[bi]); bi += 1
        elif pick == 1 and ui < len(u):
            cl.append(u[ui]); ui += 1
    if rule["default"] is not None:
        cl.append("else %s" % q(rule["default"]))
    return "define viral propagation vp1 (variable At_1) is %s end viral propagation;" % "; ".join(cl)


def rule_strategy():
    from hypothesis import strategies as st

    @st.composite
    def build(draw):
        kind = draw(st.sampled_from(["aggregate", "enum_priority", "enum_random", "enum_random"]))
        if kind == "aggregate":
            return dict(kind="aggregate", fn=draw(st.sampled_from(["min", "max", "sum", "avg"])))
        if kind == "enum_priority":   # 'when "C" then "C"; when "N" then "N"; else "F"' family: associative and commutative by construction
            order = draw(st.permutations(VALUES))
            k = draw(st.integers(1, 3))
            return dict(kind="enumerated", binary=[], unary=[(v, v) for v in order[:k]], default=draw(st.sampled_from(["F", None]) if k == 3 else st.just("F")))
        pairs = draw(st.lists(st.sampled_from([("A", "B"), ("A", "C"), ("B", "C")]), max_size=3, unique=True))
        binary = [(p if draw(st.booleans()) else (p[1], p[0]), draw(st.sampled_from(VALUES + ["X"]))) for p in pairs]
        un_vals = draw(st.lists(st.sampled_from(VALUES), max_size=3, unique=True))
        unary = [(v, draw(st.sampled_from(VALUES + ["Y"]))) for v in un_vals]
        if not binary and not unary:
            unary = [("A", "A")]
        return dict(kind="enumerated", binary=binary, unary=unary, default=draw(st.sampled_from(["D", None, "A"])), interleave=draw(st.lists(st.integers(0, 1), max_size=6)))
    return build()


# ---------------------------------------------------------------- cases
OPS = ["binary", "binary3", "nested", "unary", "scalar", "agg", "agg_all", "analytic", "filter", "calc", "rename", "assign", "union", "intersect", "setdiff", "inner_join", "left_join", "norule"]


def case_strategy():
    from hypothesis import strategies as st

    @st.composite
    def build(draw):
        rule = draw(rule_strategy())
        enum = rule["kind"] == "enumerated"
        vt = "String" if enum else "Integer"
        pool = (VALUES + ["A", "B", None]) if enum else [1, 5, 5, 9, -3, None]
        comps = [eng.comp("Id_1", "Integer", "I"), eng.comp("Id_2", "String", "I"), eng.comp("Me_1", "Number"), eng.comp("At_1", vt, "V")]
        data = {}
        for n in ("DS_1", "DS_2", "DS_3"):
            keys = draw(st.lists(st.tuples(st.sampled_from([1, 2, 3]), st.sampled_from(["x", "y"])), min_size=1, max_size=6, unique=True))
            data[n] = [{"Id_1": a, "Id_2": b, "Me_1": draw(st.sampled_from([1.0, 2.5, -3.0, 0.0])), "At_1": draw(st.sampled_from(pool))} for a, b in keys]
        op = draw(st.sampled_from(OPS))
        perm_seed = draw(st.integers(0, 10**6))
        return dict(rule=rule, op=op, data=data, comps=comps, sub=draw(st.integers(0, 3)), perm=perm_seed)
    return build()


def key_of(r):
    return (r["Id_1"], r["Id_2"])


def expected(case):
    """-> (script body, used datasets, {result key: expected viral} | None when the model does not fix it, note)"""
    rule, op, data, sub = case["rule"], case["op"], case["data"], case["sub"]
    enum = rule["kind"] == "enumerated"
    d1 = {key_of(r): r["At_1"] for r in data["DS_1"]}
    d2 = {key_of(r): r["At_1"] for r in data["DS_2"]}
    d3 = {key_of(r): r["At_1"] for r in data["DS_3"]}

    def pair(a, b):
        if enum:
            return pair_enum(rule, a, b)
        if (a is None or b is None) and rule["fn"] in ("sum", "avg"):
            return UNDET   # null + value: the pair form and the group form of sum/avg differ on nulls; not fixed by the statement
        return agg_values(rule["fn"], [a, b])

    def fold(vals):
        if not enum:
            return agg_values(rule["fn"], vals)
        if len(vals) > 1 and not case["ac"]:
            return UNDET
        return fold_enum(rule, vals)

    def whole_or_single(src):
        if enum:
            return {k: single_enum(rule, v) for k, v in src.items()}
        w = agg_values(rule["fn"], list(src.values()))
        return {k: w for k in src}

    if op == "binary":
        o = ["+", "-", "*", ">"][sub]
        return "R <- DS_1 %s DS_2;" % o, ["DS_1", "DS_2"], {k: pair(d1[k], d2[k]) for k in d1 if k in d2}
    if op == "binary3":
        return "R <- (DS_1 + DS_2) + DS_3;", ["DS_1", "DS_2", "DS_3"], {k: (lambda p: UNDET if p is UNDET else pair(p, d3[k]))(pair(d1[k], d2[k])) for k in d1 if k in d2 and k in d3}
    if op == "nested":   # a row-preserving operator over the result of a dataset-dataset operator
        inner = {k: pair(d1[k], d2[k]) for k in d1 if k in d2}
        if any(v is UNDET for v in inner.values()):
            e = {k: UNDET for k in inner}
        elif sub == 3:
            e = inner   # clause: unchanged
        else:
            e = whole_or_single(inner)
        return "R <- %s;" % ["abs(DS_1 + DS_2)", "(DS_1 - DS_2) * 2", "- (DS_1 * DS_2)", "(DS_1 + DS_2) [calc Me_2 := Me_1 + 1]"][sub], ["DS_1", "DS_2"], e
    if op == "unary":
        return "R <- %s;" % ["abs(DS_1)", "- DS_1", "round(DS_1, 1)", "isnull(DS_1)"][sub], ["DS_1"], whole_or_single(d1)
    if op == "scalar":
        return "R <- %s;" % ["DS_1 + 5", "2 * DS_1", "DS_1 > 0", "DS_1 / 2"][sub], ["DS_1"], whole_or_single(d1)
    if op == "agg":
        gi = ["Id_1", "Id_2"][sub % 2]
        fn = ["sum", "count", "max", "avg"][sub]
        groups = {}
        for r in data["DS_1"]:
            groups.setdefault(r[gi], []).append(r["At_1"])
        return "R <- %s(DS_1 group by %s);" % (fn, gi), ["DS_1"], {("g", g): fold(v) for g, v in groups.items()}
    if op == "agg_all":
        return "R <- %s(DS_1);" % ["sum", "min", "count", "avg"][sub], ["DS_1"], {("all",): fold([r["At_1"] for r in data["DS_1"]])}
    if op == "analytic":
        gi = ["Id_1", "Id_2"][sub % 2]
        groups = {}
        for r in data["DS_1"]:
            groups.setdefault(r[gi], []).append(r["At_1"])
        other = "Id_2" if gi == "Id_1" else "Id_1"
        spelling = ["partition by %s" % gi, "partition except %s" % other, "partition by %s" % gi, "partition except all"][sub]
        if sub == 3:   # one partition holding every datapoint
            groups = {None: [r["At_1"] for r in data["DS_1"]]}
            gi = None
        # explicit whole-partition window: the default frame without ORDER BY is not fixed by the offline sources (see C06)
        return "R <- sum(DS_1 over (%s order by %s data points between unbounded preceding and unbounded following));" % (spelling, other if gi else "Id_1, Id_2"), ["DS_1"], {key_of(r): fold(groups[r[gi] if gi else None]) for r in data["DS_1"]}
    if op == "filter":
        thr = [0, 1, -5, 100][sub]
        return "R <- DS_1 [filter Me_1 > %d];" % thr, ["DS_1"], {key_of(r): r["At_1"] for r in data["DS_1"] if r["Me_1"] is not None and r["Me_1"] > thr}
    if op == "calc":
        return "R <- DS_1 [calc Me_2 := Me_1 * 2];", ["DS_1"], dict(d1)
    if op == "rename":
        return "R <- DS_1 [rename Me_1 to Me_9];", ["DS_1"], dict(d1)
    if op == "assign":
        return "R <- DS_1;", ["DS_1"], dict(d1)
    if op == "union":
        e = dict(d2); e.update(d1)
        return "R <- union(DS_1, DS_2);", ["DS_1", "DS_2"], e
    if op == "intersect":
        return "R <- intersect(DS_1, DS_2);", ["DS_1", "DS_2"], None   # intersect compares whole datapoints (attributes included or not is not fixed here): only order independence
    if op == "setdiff":
        return "R <- setdiff(DS_1, DS_2);", ["DS_1", "DS_2"], None
    if op == "inner_join":
        return "R <- inner_join(DS_1 as a, DS_2 as b rename a#Me_1 to Me_a, b#Me_1 to Me_b);", ["DS_1", "DS_2"], {k: pair(d1[k], d2[k]) for k in d1 if k in d2}
    if op == "left_join":
        return "R <- left_join(DS_1 as a, DS_2 as b rename a#Me_1 to Me_a, b#Me_1 to Me_b);", ["DS_1", "DS_2"], {k: (pair(d1[k], d2[k]) if k in d2 else UNDET) for k in d1}
    if op == "norule":
        return "R <- %s;" % ["DS_1 + DS_2", "abs(DS_1)", "DS_1", "sum(DS_1 group by Id_1)"][sub], ["DS_1", "DS_2"][: 2 if sub == 0 else 1], "SEMANTIC_ERROR"
    raise AssertionError(op)


class _Undet:
    def __repr__(self):
        return "<undetermined>"


UNDET = _Undet()


def result_viral(ds, op):
    """{key: viral value} from the engine result, or a text when the attribute is missing"""
    cols, rows = eng.dataset_rows(ds)
    if "At_1" not in cols:
        return "result has no component At_1 (components %r)" % cols
    comp = ds.components["At_1"]
    if comp.role.name != "VIRAL_ATTRIBUTE":
        return "At_1 has role %s in the result" % comp.role.name
    out = {}
    for r in rows:
        if op == "agg":
            k = ("g", r.get("Id_1", r.get("Id_2")))
        elif op == "agg_all":
            k = ("all",)
        else:
            k = (r["Id_1"], r["Id_2"])
        v = r["At_1"]
        if isinstance(v, float) and v == int(v):
            v = int(v)
        out[k] = v
    return out


def same_value(e, g):
    if e is None or g is None:
        return e is None and g is None
    if isinstance(e, (int, float)) and isinstance(g, (int, float)):
        return abs(e - g) <= 1e-9 * max(1.0, abs(e))
    return e == g


def run_case(case):
    """-> list of (key, what), facts"""
    import random
    from vtlengine import run, semantic_analysis
    from vtlengine.Exceptions import SemanticError, VTLEngineException
    case["ac"] = case["rule"]["kind"] == "aggregate" or is_ac(case["rule"])
    body, used, exp = expected(case)
    script = (render_rule(case["rule"]) + "\n" if case["op"] != "norule" else "") + body
    comps = case["comps"]
    S = eng.structures(*[eng.structure(n, comps) for n in used])
    facts = dict(script=script, ac=case["ac"], op=case["op"], rule=case["rule"]["kind"])
    if exp == "SEMANTIC_ERROR":
        try:
            semantic_analysis(script=script, data_structures=S)
        except SemanticError as e:
            return [], facts
        except Exception as e:  # noqa
            return [("norule:other_error:%s" % type(e).__name__, "semantic_analysis raised %s: %s" % (type(e).__name__, str(e)[:200]))], facts
        return [("norule:accepted:%s" % body.split("(")[0].split()[-1], "a viral attribute without a propagation rule passes semantic_analysis: %s" % body)], facts
    def go(data):
        return run(script=script, data_structures=S, datapoints={n: eng.frame(comps, data[n]) for n in used})
    try:
        res = go(case["data"])
    except VTLEngineException as e:
        return [("engine_rejects:%s:%s" % (case["op"], e.args[1] if len(e.args) > 1 else type(e).__name__), "run raised %s" % str(e)[:250])], facts
    except Exception as e:  # noqa
        return [("raw:%s:%s" % (type(e).__name__, case["op"]), "run raised %s: %s" % (type(e).__name__, str(e)[:250]))], facts
    out = []
    got = result_viral(res["R"], case["op"])
    if isinstance(got, str):
        return [("viral_missing:%s" % case["op"], got)], facts
    facts["rows"] = len(got)
    if exp is not None:
        det = {k: v for k, v in exp.items() if v is not UNDET}
        facts["determined"] = len(det)
        facts["combining"] = sum(1 for v in det.values() if v is not None)
        if set(got) != set(exp):
            out.append(("keys:%s" % case["op"], "result keys %r, expected %r" % (sorted(got, key=repr)[:6], sorted(exp, key=repr)[:6])))
        else:
            for k, v in det.items():
                if not same_value(v, got[k]):
                    out.append(("value:%s:%s" % (case["op"], case["rule"]["kind"] + ("" if case["rule"]["kind"] == "enumerated" else ":" + case["rule"]["fn"])),
                                "datapoint %r: viral attribute %r, rule gives %r" % (k, got[k], v)))
                    break
    # metamorphic: row order
    rnd = random.Random(case["perm"])
    shuffled = {n: rnd.sample(rows, len(rows)) for n, rows in case["data"].items()}
    if any(shuffled[n] != case["data"][n] for n in used):
        facts["shuffled"] = True
        try:
            res2 = go(shuffled)
            d = cmp.diff_results(cmp.canon_results(res), cmp.canon_results(res2))
            if d:
                out.append(("order_dependent:%s:%s" % (case["op"], "ac" if case["ac"] else "non_ac"), "result changes when the input rows are permuted: %s" % d[:300]))
        except Exception as e:  # noqa
            out.append(("order_dependent:raises:%s" % case["op"], "permuted input raises %s" % str(e)[:200]))
    return out, facts


def work(seed, n):
    warnings.filterwarnings("ignore")
    import hypothesis
    from hypothesis import given, settings, HealthCheck
    part = core.Part()

    @settings(max_examples=n, database=None, deadline=None, suppress_health_check=list(HealthCheck), phases=[hypothesis.Phase.generate])
    @hypothesis.seed(seed)
    @given(case_strategy())
    def prop(case):
        fails, facts = run_case(case)
        nt = facts.get("combining", 0) >= 1 and case["op"] in ("binary", "binary3", "nested", "agg", "agg_all", "analytic", "inner_join", "left_join", "unary", "scalar") or case["op"] == "norule"
        part.case(core.fingerprint([facts["script"], case["data"]]), nt, sample=dict(script=facts["script"], DS_1=case["data"]["DS_1"][:3]) if nt and len(part.samples) < 3 else None,
                  labels=["op=" + case["op"], "rule=" + facts["rule"], "ac=%s" % facts["ac"]] + (["shuffled"] if facts.get("shuffled") else []))
        for key, what in fails:
            part.fail(key, dict(script=facts["script"], data={k: v for k, v in case["data"].items()}, case={k: v for k, v in case.items() if k != "comps"}), what)
    prop()
    return part


def run(ctx):
    ctx.rule = ("cases: (propagation rule, operator class, data) generated by Hypothesis: aggregate min/max/sum/avg and enumerated rule tables (priority chains and random unary/binary tables, with and without default), "
                "18 operator classes, data with null and conflicting viral values; oracle = the propagation model stated in the property (pair / fold / single / whole-operand / unchanged / rejected without rule) "
                "+ row-order permutation; non-trivial = a result datapoint whose viral value is determined by the model from >=1 non-null input value in a combining operator class, or a no-rule case")
    n = 40 if ctx.quick else 2500
    ctx.merge(core.pmap("checks.c28", "work", [(ctx.seed * 1009 + k, n) for k in range(16)], procs=16))
    ctx.assumptions = ["enumerated group folds are compared exactly only for rule tables that are associative and commutative over the closure of their values (brute force); for other tables only order independence is asserted",
                       "pairing a null with a value under aggregate sum / avg, unmatched rows of left_join, intersect and setdiff (which compare whole datapoints) are not fixed by the property and only checked for order independence",
                       "hierarchy / check_hierarchy / check_datapoint results are not covered by this check"]


def replay(ctx, path):
    import json
    warnings.filterwarnings("ignore")
    d = json.load(open(path))
    case = d["case"]["case"]
    case["comps"] = [eng.comp("Id_1", "Integer", "I"), eng.comp("Id_2", "String", "I"), eng.comp("Me_1", "Number"), eng.comp("At_1", "String" if case["rule"]["kind"] == "enumerated" else "Integer", "V")]
    if case["rule"]["kind"] == "enumerated":
        case["rule"]["binary"] = [(tuple(p), r) for p, r in case["rule"]["binary"]]
        case["rule"]["unary"] = [tuple(x) for x in case["rule"]["unary"]]
    fails, facts = run_case(case)
    print("replay:", facts["script"]); print("failures:", fails)
    return 1 if any(k == d["key"] for k, _ in fails) or fails else 0
