"""C31 — the fast prediction mode (SLL, as used by the shipped parser) accepts exactly the language of full LL parsing and builds the same tree.

Differential on the ATN shipped in the repository (extracted from the generated Vtl.cpp / VtlTokens.cpp of the current tree): every text is parsed
twice by the same ANTLR 4.11.1 interpreter, once with PredictionMode.SLL (what do_parse selects) and once with PredictionMode.LL; the complete
outputs must be identical: parse tree (rule, alternative, token sequence, error nodes), first syntax error (line, column, message) and comments.
Texts: every corpus script, Hypothesis-generated scripts (literal / clause grammar, operator catalogue, rulesets, viral rules, joins, analytics),
their token-level mutations (to sit on the language boundary) and random token soup.
"""
import json, warnings
from verif import core, corpus, texts

LEVEL = "exploration"


def both(text):
    """-> (sll lines without profile, ll lines without profile, profile of the SLL run, profile of the LL run)"""
    import vtlengine.AST.Grammar._cpp_parser.vtl_cpp_parser as sh
    a = sh._raw(text, "SLLP")
    b = sh._raw(text, "LLP")
    strip = lambda ls: [l for l in ls if not l.startswith("F ")]
    prof = lambda ls: [tuple(int(x) for x in l.split(" ")[1:]) for l in ls if l.startswith("F ")]
    for ls in (a, b):
        if any(l.startswith("X ") for l in ls):
            raise core.HarnessError("parse server error: %s" % [l for l in ls if l.startswith("X ")][0][:200])
    return strip(a), strip(b), prof(a), prof(b)


def compare(part, label, text, cov):
    a, b, pa, pb = both(text)
    accepted = not any(l.startswith("E ") for l in a)
    fallback = sum(p[2] for p in pb)
    maxlook = max([p[4] for p in pa] + [0])
    nt = fallback > 0 or maxlook >= 2
    for l in a:
        if l.startswith("R "):
            f = l.split(" ", 5)
            cov.add((int(f[1]), int(f[2]), int(f[3])))
    part.case(core.fingerprint(text), nt, sample=dict(text=text[:160], accepted=accepted, ll_fallbacks=fallback, sll_max_lookahead=maxlook) if nt and len(part.samples) < 3 else None,
              labels=[label, "accepted" if accepted else "rejected"] + (["ll_fallback"] if fallback else []) + ["sll_lookahead>=%d" % min(maxlook, 5)])
    for p in pb:
        if p[2]:
            part.hist["ll_fallback_at_decision_%d" % p[0]] += p[2]
        if p[3]:
            part.hist["ambiguity_at_decision_%d" % p[0]] += p[3]
    if a != b:
        ea = [l for l in a if l.startswith("E ")]
        eb = [l for l in b if l.startswith("E ")]
        if bool(ea) != bool(eb):
            kind = "sll_rejects_ll_accepts" if ea else "sll_accepts_ll_rejects"
        elif ea != eb:
            kind = "error_position_differs"
        else:
            kind = "tree_differs"
        i = next(i for i in range(max(len(a), len(b))) if i >= len(a) or i >= len(b) or a[i] != b[i])
        part.fail("%s:%s" % (kind, label), dict(text=text), "SLL and LL outputs differ at line %d: SLL %r, LL %r" % (i, a[i][:120] if i < len(a) else None, b[i][:120] if i < len(b) else None))


def work_corpus(scripts):
    warnings.filterwarnings("ignore")
    part = core.Part()
    cov = set()
    for s in scripts:
        compare(part, "corpus", s, cov)
    part.notes.append(sorted(cov))
    return part


def generated_strategy():
    from hypothesis import strategies as st
    from checks import c24, c32, c28, c29

    @st.composite
    def from_c32(draw):
        return c32.build_case(draw)["script"]

    @st.composite
    def from_c28(draw):
        return c28.render_rule(draw(c28.rule_strategy())) + "\nR <- DS_1 + DS_2;"

    @st.composite
    def from_c29(draw):
        t = draw(st.sampled_from(c29.TEMPLATES))[1]
        return c29.instantiate(t, c29.BASE)
    extras = st.sampled_from([
        'define hierarchical ruleset hr (variable rule Id_2) is r1: a = b + c - d errorcode "h" errorlevel 2; when x = "1" then a >= b; e > f end hierarchical ruleset; R <- check_hierarchy(DS_1, hr rule Id_2 non_zero partial_null all);',
        'define operator f (x dataset, y component default 1, z scalar<integer>) returns dataset is x [calc w := y + z] end operator; R <- f(DS_1, Me_1, 3);',
        'R <- eval(extR(DS_1, 2) language "SQL" returns dataset {identifier<integer> Id_1, measure<number> Me_1});',
        'R <- DS_1 [unpivot Id_9, Me_9] [sub Id_9 = "a"] [pivot Id_2, Me_9];',
        'R <- full_join(DS_1 as a, DS_2 as b, DS_3 filter a#Me_1 > 1 apply a + b keep Me_1 rename Me_1 to Me_9);',
        'R <- cast(DS_1#Me_1, string, "YYYY-MM") || cast(current_date(), string);',
        'R <- DS_1 [aggr x := sum(Me_1), y := count() group by Id_1 having avg(Me_1) > 2];',
        'R <- first_value(DS_1 over (partition by Id_1 order by Id_2 desc range between 1 preceding and current data point));',
        'R := hierarchy(DS_1, hr condition Id_3 rule Id_2 non_null dataset_priority computed);',
        'R <- fill_time_series(DS_1, all) ; S <- timeshift(flow_to_stock(DS_1), -1); T <- time_agg("A", _, DS_1, last);',
        'R <- DS_1 in {1, 2, 3}; S <- DS_1 not_in vd1; T <- match_characters(DS_1, "[a-z]+") ; U <- exists_in(DS_1, DS_2, false);',
        'R <- if a then b else if c then d else e; S <- case when x > 1 then 1 when x > 2 then 2 else 3;',
        'R <- -DS_1 + +DS_2 * not DS_3 / (DS_4 - 5) || "s" = null <> true and false or x xor y;',
        'R <- random(DS_1, 3); S <- string_distance(levenshtein, DS_1, "a"); T <- instr(DS_1, "a", 1, 2); U <- replace(DS_1, "a");',
        'define viral propagation vp (valuedomain CL_X) is r1: when "A" and "B" then "C"; when null then "D"; else "E" end viral propagation; R <- DS_1;',
        'define datapoint ruleset dpr (valuedomain vd1 as A, vd2) is when A > 0 then vd2 < 5 errorcode 1 errorlevel "x"; r2: vd2 between 1 and 2 end datapoint ruleset; R <- check_datapoint(DS_1, dpr components Me_1, Me_2 all_measures);',
        'R <- check(DS_1 >= DS_2 errorcode "e" errorlevel 5 imbalance DS_1 - DS_2 all);',
        'R <- inner_join(DS_1, DS_2 using Id_1 aggr x := sum(Me_1) group except Id_2);',
        'R <- DS_1 [calc identifier i := Me_1, measure m := Me_2, attribute a := "x", viral attribute v := "y"];',
        'R <- setdiff(union(DS_1, DS_2, DS_3), symdiff(DS_1, intersect(DS_2, DS_3)));',
        'define operator g (x dataset {identifier<integer> Id_1, measure<number [> 0]> *}, r datapoint_ruleset {Me_1}, s set<string>, h hierarchical_ruleset {valuedomain vd1 (rule Id_2)}, c component<scalar>) returns scalar<string not null> is x end operator; R <- g(DS_1, dpr, {"a"}, hr, Me_1);',
        'R <- left_join(DS_1 as a, DS_2 as b nvl a#Me_1 default 0 calc x := 1);',
        'R <- dateadd(DS_1, 2, "M"); S <- datediff(d1, d2); T <- getyear(d) + getmonth(d) + dayofmonth(d) + dayofyear(d); U <- daytoyear(400) ; V <- yeartoday("P1Y2D");',
    ])
    return st.one_of(c24.script_strategy(set()), from_c32(), from_c28(), from_c29(), extras)


def work_generated(seed, n, mutate):
    warnings.filterwarnings("ignore")
    import hypothesis
    from hypothesis import given, settings, HealthCheck, strategies as st
    part = core.Part()
    cov = set()
    gen = generated_strategy()

    @settings(max_examples=n, database=None, deadline=None, suppress_health_check=list(HealthCheck), phases=[hypothesis.Phase.generate])
    @hypothesis.seed(seed)
    @given(st.data())
    def prop(data):
        text = data.draw(gen)
        if mutate:
            text = data.draw(texts.mutation_strategy(text))
        compare(part, "generated_mutated" if mutate else "generated", text, cov)
    prop()
    part.notes.append(sorted(cov))
    return part


def work_mutated_corpus(seed, n, scripts):
    warnings.filterwarnings("ignore")
    import hypothesis
    from hypothesis import given, settings, HealthCheck, strategies as st
    part = core.Part()
    cov = set()

    @settings(max_examples=n, database=None, deadline=None, suppress_health_check=list(HealthCheck), phases=[hypothesis.Phase.generate])
    @hypothesis.seed(seed)
    @given(st.data())
    def prop(data):
        src = data.draw(st.sampled_from(scripts))
        compare(part, "corpus_mutated", data.draw(texts.mutation_strategy(src)), cov)
    prop()
    part.notes.append(sorted(cov))
    return part


def work_random(seed, n):
    warnings.filterwarnings("ignore")
    import hypothesis
    from hypothesis import given, settings, HealthCheck
    part = core.Part()
    cov = set()

    @settings(max_examples=n, database=None, deadline=None, suppress_health_check=list(HealthCheck), phases=[hypothesis.Phase.generate])
    @hypothesis.seed(seed)
    @given(texts.random_text_strategy())
    def prop(text):
        compare(part, "random", text, cov)
    prop()
    part.notes.append(sorted(cov))
    return part


def _dispatch(fname, args):
    return globals()[fname](*args)


def run(ctx):
    ctx.rule = ("cases: texts parsed in both prediction modes - all corpus scripts, generated scripts (5 grammars + 21 hand-written sentences for rarely used rules), token-level mutations of both, random token soup; "
                "non-trivial = the parse needed more than one token of lookahead at some decision in SLL mode or fell back to full-context prediction in LL mode (parser profiling counters)")
    q = ctx.quick
    allc = [c for c in corpus.harvest() if len(c["script"]) < 20000]
    scripts = sorted({c["script"] for c in (corpus.rotate(allc, ctx.seed, 700) if q else allc)})
    small = [s for s in scripts if len(s) < 3000]
    jobs = [("work_corpus", (scripts[k::5],)) for k in range(5)]
    jobs += [("work_generated", (ctx.seed * 1009 + k, 300 if q else 10000, False)) for k in range(3)]
    jobs += [("work_generated", (ctx.seed * 1009 + 10 + k, 300 if q else 10000, True)) for k in range(3)]
    jobs += [("work_mutated_corpus", (ctx.seed * 1009 + 20 + k, 300 if q else 10000, small)) for k in range(4)]
    jobs += [("work_random", (ctx.seed * 1009 + 30, 300 if q else 10000))]
    ctx.merge(core.pmap("checks.c31", "_dispatch", jobs, procs=16))
    # rule / alternative coverage over everything parsed
    cov = set()
    for n in ctx.part.notes:
        cov.update(tuple(x) for x in n)
    ctx.part.notes[:] = []
    import vtlengine.AST.Grammar._cpp_parser.vtl_cpp_parser as sh
    data = json.load(open(sh._D + "/shim.json")) if hasattr(sh, "_D") else {}
    nrules = len(data.get("rules", [])) or None
    rules_seen = sorted({r for r, _, _ in cov})
    ctx.extra.update(parser_rules_total=nrules, parser_rules_exercised=len(rules_seen), distinct_rule_alternatives_exercised=len(cov),
                     parser_rules_not_exercised=[data["rules"][i] if isinstance(data.get("rules"), list) and i < len(data["rules"]) else i for i in range(nrules or 0) if i not in rules_seen][:40])
    ctx.assumptions = ["TRUSTED BASE: both modes run in the ANTLR 4.11.1 Java runtime over the ATN serialised in the repository's generated parser (same ATN the native extension is compiled from); "
                       "the C++ runtime's own implementation of SLL prediction is not executed",
                       "sentences come from the corpus and from this harness's script generators, not from an exhaustive walk of the ATN: rule alternatives never exercised are listed in the evidence (parser_rules_not_exercised)"]


def replay(ctx, path):
    warnings.filterwarnings("ignore")
    c = json.load(open(path))["case"]
    part = core.Part()
    compare(part, "replay", c["text"], set())
    print("replay failures:", {k: v[2] for k, v in part.failures.items()})
    return 1 if part.failures else 0
