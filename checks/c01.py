"""C01 — element-wise operators compute VTL values over matched datapoints.

Differential oracle: Hypothesis-generated, well-typed-by-construction scripts (dataset-level operator trees
and component-level expressions inside calc) are rendered to VTL text for the engine and evaluated as IR by
refvtl (lib/verif/refvtl.py, independent of the engine).  Results are compared as keyed sets; where refvtl
says the operation is a VTL runtime error (division by zero on a matched datapoint) the engine must raise a VTL error.
"""
import warnings
from verif import core, gen, diffrun, refvtl

LEVEL = "exploration"
PID = "C01"


def case_strategy(mode):
    from hypothesis import strategies as st

    @st.composite
    def build(draw):
        if mode == "dsif":
            return draw(gen.dsif_case())
        if mode == "dataset":
            ci = draw(gen.case_inputs())
            ir = draw(gen.ds_expr(ci, draw(st.integers(1, 3))))
        else:  # component level: one calc with 1-2 typed expressions of depth <= 3 over a mixed-type dataset
            ci = draw(gen.case_inputs(n_datasets=1, mixed=True))
            comps = ci["structs"]["DS_1"]
            items = []
            for j in range(draw(st.integers(1, 2))):
                typ = draw(st.sampled_from(["Number", "Integer", "String", "Boolean"]))
                items.append(("c_%d" % (j + 1), "M", typ, draw(gen.expr(typ, comps, draw(st.integers(1, 3))))))
            ir = ("clause", "calc", ("ds", "DS_1"), items)
        return ci, ir
    return build()


def nontrivial(ci, ir, facts):
    ops = set(facts.get("ops", []))
    has_null = any(v is None for rows in ci["rows"].values() for r in rows for v in r.values())
    partial = False
    if len(ci["rows"]) >= 2:
        keysets = [set(tuple(r.get(i) for i in ("Id_1",)) for r in rows) for rows in ci["rows"].values()]
        partial = any(a != b for a in keysets for b in keysets)
    return bool(ops) and (has_null or partial or facts.get("ref") == "vtl_error")


def work(seed, n, mode, pid):
    warnings.filterwarnings("ignore")
    import hypothesis
    from hypothesis import given, settings, HealthCheck
    part = core.Part()

    @settings(max_examples=n, database=None, deadline=None, suppress_health_check=list(HealthCheck), phases=[hypothesis.Phase.generate])
    @hypothesis.seed(seed)
    @given(case_strategy(mode))
    def prop(c):
        ci, ir = c
        key, what, facts = diffrun.run_case(ci, ir)
        if key == "unsupported":
            part.hist["unsupported_by_reference"] += 1
            return
        nt = nontrivial(ci, ir, facts)
        part.case(core.fingerprint([ci, facts["script"]]), nt, sample=dict(script=facts["script"], rows={k: v[:3] for k, v in ci["rows"].items()}, structs={k: {n: list(c) for n, c in v.items()} for k, v in ci["structs"].items()}) if nt and len(part.samples) < 2 else None,
                  labels=["mode=" + mode, "family=" + ci["family"], "ref=" + str(facts.get("ref"))] + ["op:" + o for o in facts["ops"]])
        if key:
            if key not in part.failures:
                ci2, ir2 = diffrun.reduce_case(ci, ir, key.split(":")[0], budget=30)
                k2, w2, f2 = diffrun.run_case(ci2, ir2)
                if k2 and k2.split(":")[0] == key.split(":")[0]:
                    ci, ir, key, what, facts = ci2, ir2, k2, w2, f2
            part.fail(key, dict(inputs=ci, script=facts["script"], ir=repr(ir)), what)
    prop()
    return part


def probe_known():
    warnings.filterwarnings("ignore")
    part = core.Part()
    ci = dict(structs={"DS_1": {"Id_1": ("I", "Integer"), "Me_1": ("M", "Number")}}, rows={"DS_1": [{"Id_1": "1", "Me_1": "1.5"}, {"Id_1": "2", "Me_1": None}]}, family="num")
    ir = ("dsscalar", "<=", ("dsfn", "abs", ("ds", "DS_1"), []), ("lit", "Integer", 5), False)
    key, what, facts = diffrun.run_case(ci, ir)
    part.case("probe:rename_nested", True, labels=["known_finding_probe"])
    if key:
        part.fail(key, dict(inputs=ci, script=facts["script"], ir=repr(ir)), what)
    # bare boolean dataset as if-condition
    b = {"Id_1": ("I", "Integer"), "Me_1": ("M", "Boolean")}
    nn = {"Id_1": ("I", "Integer"), "Me_1": ("M", "Number")}
    ci = dict(structs={"DS_1": b, "DS_2": nn, "DS_3": nn}, family="num", rows={"DS_1": [{"Id_1": "1", "Me_1": "true"}, {"Id_1": "2", "Me_1": None}],
              "DS_2": [{"Id_1": "1", "Me_1": "10"}, {"Id_1": "2", "Me_1": "20"}], "DS_3": [{"Id_1": "1", "Me_1": "-1"}, {"Id_1": "2", "Me_1": "-2"}]})
    ir = ("dsif", ("ds", "DS_1"), ("ds", "DS_2"), ("ds", "DS_3"), "bare")
    key, what, facts = diffrun.run_case(ci, ir)
    part.case("probe:dsif_bare", True, labels=["known_finding_probe"])
    if key:
        part.fail("dsif_bare_condition:" + key.split(":")[0] + ":" + key.split(":")[1], dict(inputs=ci, script=facts["script"], ir=repr(ir)), what)
    # product of four Number factors: DECIMAL scale 40
    ci = dict(structs={"DS_1": nn}, family="num", rows={"DS_1": [{"Id_1": "1", "Me_1": "1.5"}, {"Id_1": "2", "Me_1": "2"}]})
    m = ("comp", "Me_1")
    ir = ("clause", "calc", ("ds", "DS_1"), [("Me_2", "M", ("bin", "*", ("bin", "*", m, m), ("bin", "*", m, m)))])
    try:
        key, what, facts = diffrun.run_case(ci, ir)
    except Exception:   # IR shape not supported by this helper: build the script by hand
        key, what, facts = diffrun.run_case(ci, ("ds", "DS_1"), script="R <- DS_1 [calc Me_2 := Me_1 * Me_1 * Me_1 * Me_1];")
    part.case("probe:number_product_scale", True, labels=["known_finding_probe"])
    if key:
        part.fail("number_product_scale:" + ":".join(key.split(":")[:2]), dict(inputs=ci, script=facts["script"], ir=repr(ir)), what)
    return part


def run(ctx, modes=("dataset", "component"), pid="C01"):
    ctx.rule = ("cases: Hypothesis-generated (inputs, script) pairs - 1-3 datasets with 1-3 identifiers (equal or nested), 1-2 measures, 0-8 rows from boundary pools with nulls; "
                "dataset-level operator trees of depth <=3 and component-level typed expressions of depth <=3 inside calc; oracle = independent reference interpreter refvtl; "
                "non-trivial = at least one operator and (a null operand, or partial key overlap between operands, or an expected runtime error); distinct by (inputs, script)")
    n = 60 if ctx.quick else 2500
    allmodes = list(modes) * 3 + ["dsif"] if pid == "C01" else list(modes)
    jobs = [(ctx.seed * 1009 + k, n, allmodes[k % len(allmodes)], pid) for k in range(16)]
    ctx.merge(core.pmap("checks.c01", "work", jobs, procs=16))
    ctx.merge([probe_known()])
    ctx.part.excluded["rename_nested (comparison/isnull/ceil/floor/trunc combined with another dataset-level operator)"] += 1
    ctx.part.excluded["products of four or more Number factors (DECIMAL scale above 38)"] += 1
    ctx.assumptions = ["refvtl semantics grounded in the property statement, /repo/docs and the VTL 2.1 semantics reproduced by tests/ReferenceManual; shapes where those sources do not settle the answer "
                       "are not generated: round() on rounding ties, mod with negative operands or zero divisor, ln/sqrt/log outside their domain, substr start < 1 (DESIGN.md §4)",
                       "Number inputs have <= 4 decimals and magnitude <= 1e4; tolerance 1e-9 relative (1e-7 for / ln exp sqrt power log)"]


def replay(ctx, path):
    import json, ast
    warnings.filterwarnings("ignore")
    case = json.load(open(path))["case"]
    from fractions import Fraction
    ir = eval(case["ir"], {"Fraction": Fraction})
    key, what, facts = diffrun.run_case(case["inputs"], ir)
    print("replay:", key, what)
    return 1 if key and key != "unsupported" else 0
