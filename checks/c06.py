"""C06 — analytic (window) functions compute over the specified partitions and frames.

Differential oracle: refvtl evaluates the frame definition literally per datapoint (partition, total ordering, `data points` /
`range` windows with offsets 0-3 and unbounded bounds).  Second oracle (metamorphic): shuffling the input rows leaves the result unchanged.
"""
import warnings
from verif import core, gen, diffrun
from checks import c01

LEVEL = "exploration"


def work(seed, n):
    warnings.filterwarnings("ignore")
    import hypothesis, random
    from hypothesis import given, settings, HealthCheck
    part = core.Part()

    @settings(max_examples=n, database=None, deadline=None, suppress_health_check=list(HealthCheck), phases=[hypothesis.Phase.generate])
    @hypothesis.seed(seed)
    @given(gen.analytic_case())
    def prop(c):
        ci, ir = c
        key, what, facts = diffrun.run_case(ci, ir)
        if key == "unsupported":
            part.hist["unsupported_by_reference"] += 1
            return
        op, partition, orderby, window = ir[1], ir[4], ir[5], ir[6]
        rows = ci["rows"]["DS_1"]
        groups = {}
        for r in rows:
            groups.setdefault(tuple(r[p] for p in partition), []).append(r)
        nt = any(len(g) >= 3 for g in groups.values()) and (window is not None and not (window[1] == "up" and window[2] == "uf") and not (window[1] == "cur" and window[2] == "cur") or op in ("lag", "lead", "rank"))
        wl = "window=none" if window is None else "window=%s" % window[0]
        part.case(core.fingerprint([ci, facts["script"]]), nt, sample=dict(script=facts["script"], rows=rows[:4]) if nt and len(part.samples) < 2 else None,
                  labels=["op=" + op, wl, "calc" if ir[8] else "dataset-level", "partition=%d" % len(partition)])
        if key:
            key = key.split(":")[0] + ":" + op + ":" + wl + (":calc" if ir[8] else ":ds")
            part.fail(key, dict(inputs=ci, script=facts["script"], ir=repr(ir)), what)
            return
        # metamorphic: shuffled input rows
        if len(rows) >= 2 and facts.get("engine") == "ok":
            rng = random.Random(len(facts["script"]) + len(rows))
            sh = list(rows); rng.shuffle(sh)
            k2, w2, f2 = diffrun.run_case(dict(ci, rows={"DS_1": sh}), ir)
            part.hist["shuffled_rerun"] += 1
            if k2 and k2 != "unsupported":
                part.fail("shuffle:" + k2.split(":")[0] + ":" + op, dict(inputs=dict(ci, rows={"DS_1": sh}), script=facts["script"], ir=repr(ir)), "after shuffling the input rows: " + str(w2))
    prop()
    return part


def run(ctx):
    ctx.rule = ("cases: Hypothesis-generated analytic invocations (16 functions; dataset level and inside calc; partition by a subset of identifiers, order by ALL remaining identifiers = total order, "
                "asc/desc; windows `data points` / `range` between bounds from {unbounded, 0-3 preceding/following, current}; lag/lead offsets 1-3) over numeric datasets with 0-12 rows and nulls; oracle = refvtl "
                "plus shuffled-input rerun; non-trivial = a partition with >=3 rows and a frame that is neither whole-partition nor current-row-only (or lag/lead/rank); distinct by (inputs, script)")
    n = 50 if ctx.quick else 2500
    ctx.merge(core.pmap("checks.c06", "work", [(ctx.seed * 1009 + k, n) for k in range(16)], procs=16))
    ctx.assumptions = ["count only over data without null measures; ratio_to_report over a zero total not asserted; default window with order by = unbounded preceding .. current data point"]


replay = c01.replay
