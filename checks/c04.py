"""C04 — joins combine datasets as specified.

Differential oracle (refvtl relational join on the join keys, missing side of outer joins = nulls, alias#name for
non-key components occurring in several operands) over Hypothesis-generated inner/left/full joins of 2-3 datasets with
equal or nested identifier sets, partial key overlap, optional using, and a trailing filter/calc/keep/drop/rename/aggr body.
"""
import warnings
from verif import core, gen, diffrun
from checks import c01

LEVEL = "exploration"


def work(seed, n):
    warnings.filterwarnings("ignore")
    import hypothesis
    from hypothesis import given, settings, HealthCheck
    part = core.Part()

    @settings(max_examples=n, database=None, deadline=None, suppress_health_check=list(HealthCheck), phases=[hypothesis.Phase.generate])
    @hypothesis.seed(seed)
    @given(gen.join_case())
    def prop(c):
        ci, ir = c
        script = None
        if ir[0] == "join" and ir[4] and len(facts_seed := ir[2]) >= 2 and hash(repr(ir)) % 3 == 0:
            # two joins with the same aliases in one script: an earlier statement renames every qualified name away
            shared = [n for n in ci["structs"]["DS_1"] if ci["structs"]["DS_1"][n][0] != "I" and n in ci["structs"]["DS_2"]]
            first = ("join", ir[1], ir[2], None, [("rename", [("%s#%s" % (a, n), "z_%s_%s" % (a, n)) for n in shared for _, a in ir[2][:2]])] if shared else [])
            script = "R0 := %s;\nR <- %s;" % (gen.render_ds(first), gen.render_ds(ir))
        key, what, facts = diffrun.run_case(ci, ir, script=script)
        if key == "unsupported":
            part.hist["unsupported_by_reference"] += 1
            return
        kind, body = ir[1], ir[4]
        names = sorted(ci["rows"])
        def keyset(n):
            ids = [i for i, (r, t) in ci["structs"][n].items() if r == "I"]
            common = [i for i in ids if all(i in ci["structs"][m] for m in names)]
            return set(tuple(r[i] for i in common) for r in ci["rows"][n])
        ks = [keyset(n) for n in names]
        nt = len(ks) >= 2 and bool(ks[0] - ks[1]) and bool(ks[1] - ks[0])
        part.case(core.fingerprint([ci, facts["script"]]), nt, sample=dict(script=facts["script"], rows={k: v[:3] for k, v in ci["rows"].items()}) if nt and len(part.samples) < 2 else None,
                  labels=["kind=" + kind, "operands=%d" % len(ir[2]), "using" if ir[3] else "no-using"] + ["body:" + b[0] for b in body] + (["two_join_statements"] if script else []))
        if key:
            key = key.split(":")[0] + ":" + kind + ":" + "+".join(b[0] for b in body)
            part.fail(key, dict(inputs=ci, script=facts["script"], ir=repr(ir)), what)
    prop()
    return part


def run(ctx):
    ctx.rule = ("cases: Hypothesis-generated inner_join / left_join / full_join of 2-3 datasets (identifier sets equal or nested, 0-6 rows each, nulls, a measure name shared by two operands in half of the cases) with optional "
                "using and a body (filter, calc, keep, drop, rename, aggr); oracle = refvtl; non-trivial = each of the first two operands has a key the other lacks; distinct by (inputs, script)")
    n = 60 if ctx.quick else 2500
    ctx.merge(core.pmap("checks.c04", "work", [(ctx.seed * 1009 + k, n) for k in range(16)], procs=16))
    ctx.assumptions = ["cross_join and `using` on non-common identifiers are not generated (identifier renaming rules not settled by the offline sources)",
                       "components sharing a name across operands are always renamed or dropped in the body"]


replay = c01.replay
