"""C14 — writing results to an output folder preserves them exactly.

Differential oracle: the same run() is executed in memory and with output_folder (csv / parquet,
both return_only_persistent values).  Then: exactly one file per returned dataset (right extension),
`_scalars.csv` iff scalars are returned and nothing else; file rows/columns (read with independent
readers: own RFC 4180 CSV parser / pyarrow) equal the in-memory DataFrame as keyed sets; `_scalars.csv`
holds exactly the returned scalars; returned datasets carry no in-memory data.
"""
import csv, decimal, datetime, os, shutil, tempfile, warnings
from verif import core, corpus, cmp, eng
from checks import c24, c12

LEVEL = "exploration"


def cell_from_csv(text, typ):
    if text is None:
        return None
    if typ == "Integer":
        return int(text) if text.lstrip("+-").isdigit() else float(text)
    if typ == "Number":
        return float(text)
    if typ == "Boolean":
        return {"true": True, "false": False}.get(text.lower(), text)
    return text


def cell_from_parquet(v, typ):
    if v is None:
        return None
    if isinstance(v, decimal.Decimal):
        return float(v) if typ != "Integer" or v != v.to_integral_value() else int(v)
    if isinstance(v, (datetime.datetime, datetime.date)):
        return v.isoformat()
    if isinstance(v, float) and v != v:
        return None
    return v


def parse_csv(text):
    """RFC 4180 reader that keeps the null / empty-string distinction: an unquoted empty field is None."""
    rows, row, field, quoted, i, n, inq = [], [], [], False, 0, len(text), False
    def endfield():
        nonlocal field, quoted
        row.append("".join(field) if (quoted or field) else None)
        field, quoted = [], False
    while i < n:
        c = text[i]
        if inq:
            if c == '"':
                if i + 1 < n and text[i + 1] == '"':
                    field.append('"'); i += 1
                else:
                    inq = False
            else:
                field.append(c)
        elif c == '"' and not field:
            inq = True; quoted = True
        elif c == ",":
            endfield()
        elif c == "\n" or c == "\r":
            if c == "\r" and i + 1 < n and text[i + 1] == "\n":
                i += 1
            endfield(); rows.append(row); row = []
        else:
            field.append(c)
        i += 1
    if field or quoted or row:
        endfield(); rows.append(row)
    return rows


def read_csv_file(path, types):
    with open(path, newline="", encoding="utf-8") as f:
        rows = parse_csv(f.read())
    if not rows:
        return None, []
    header = rows[0]
    out = []
    for r in rows[1:]:
        out.append([cell_from_csv(v, types.get(h, "String")) for h, v in zip(header, r)])
    return header, out


def read_parquet_file(path, types):
    import pyarrow.parquet as pq
    t = pq.read_table(path)
    header = list(t.column_names)
    cols = [t.column(i).to_pylist() for i in range(len(header))]
    out = [[cell_from_parquet(c[i], types.get(h, "String")) for h, c in zip(header, cols)] for i in range(t.num_rows)]
    return header, out


def compare_case(part, src, run_kw, labels, fmt, rop, extra=None):
    from vtlengine import run
    from vtlengine.Model import Dataset, Scalar
    kw = dict(run_kw, return_only_persistent=rop)
    try:
        mem = run(**kw)
    except Exception:
        part.hist["run_failed"] += 1
        return
    tmp = tempfile.mkdtemp(prefix="c14_", dir=os.environ.get("VERIF_TMP", "/var/tmp"))
    out_dir = os.path.join(tmp, "out")
    case = dict(source=src, script=run_kw["script"], output_format=fmt, return_only_persistent=rop, time_period_output_format=run_kw.get("time_period_output_format", "vtl"), **(extra or {}))
    try:
        try:
            res = run(**dict(kw, output_folder=out_dir, output_format=fmt))
        except Exception as e:  # noqa
            part.fail("run_with_output_folder_raises:%s" % eng.classify_exc(e), case, "run succeeded in memory but raised with output_folder: %s" % str(e)[:300])
            return
        mem_c = cmp.canon_results(mem)
        has_null_or_quote = False
        files = sorted(os.listdir(out_dir)) if os.path.isdir(out_dir) else []
        dsets = sorted(k for k, v in mem.items() if isinstance(v, Dataset))
        scal = sorted(k for k, v in mem.items() if isinstance(v, Scalar))
        want = sorted(["%s.%s" % (k, fmt) for k in dsets] + (["_scalars.csv"] if scal else []))
        if sorted(res) != sorted(mem):
            part.fail("returned_names_differ", case, "in-memory run returns %r, output-folder run returns %r" % (sorted(mem), sorted(res)))
            return
        if files != want:
            part.fail("file_set", case, "files written %r, expected %r" % (files, want))
            return
        for k in dsets:
            if res[k].data is not None:
                part.fail("returned_dataset_carries_data", case, "dataset %s returned with in-memory data although output_folder was given" % k)
                return
            types = {n: t for n, _, t, _ in mem_c[k]["components"]}
            path = os.path.join(out_dir, "%s.%s" % (k, fmt))
            try:
                header, rows = read_csv_file(path, types) if fmt == "csv" else read_parquet_file(path, types)
            except Exception as e:  # noqa
                part.fail("file_unreadable:%s" % fmt, case, "%s: %s: %s" % (path, type(e).__name__, str(e)[:200]))
                return
            if header is None:
                header = []
            if header != mem_c[k]["columns"]:
                part.fail("file_columns", case, "%s: file columns %r, in-memory columns %r" % (k, header, mem_c[k]["columns"]))
                return
            file_c = dict(mem_c[k], columns=header, rows=[[cmp.canon_value(v) for v in r] for r in rows])
            d = cmp.diff_dataset(mem_c[k], file_c, rel=1e-9, check_structure=False)
            if d:
                part.fail("file_content:%s" % fmt, case, "%s: %s" % (k, d))
                return
            for r in mem_c[k]["rows"]:
                if any(v is None or (isinstance(v, str) and (v == "" or any(ch in v for ch in ',"\n'))) for v in r):
                    has_null_or_quote = True
        if scal:
            with open(os.path.join(out_dir, "_scalars.csv"), newline="", encoding="utf-8") as f:
                rows = list(csv.reader(f))
            if not rows or rows[0] != ["name", "value"]:
                part.fail("scalars_header", case, "_scalars.csv header %r" % (rows[:1],))
                return
            got = {r[0]: r[1] for r in rows[1:] if len(r) == 2}
            if sorted(got) != scal or len(rows) - 1 != len(scal):
                part.fail("scalars_names", case, "_scalars.csv holds %r, returned scalars %r" % (sorted(got), scal))
                return
            for k in scal:
                mv = mem_c[k]["value"]
                fv = got[k]
                ok = (mv is None and fv == "") or (mv is not None and (str(mem[k].value) == fv or _num_eq(mv, fv)))
                if not ok:
                    part.fail("scalar_value", case, "_scalars.csv %s=%r, in-memory %r" % (k, fv, mv))
                    return
                rv = cmp.canon_value(res[k].value)
                if not cmp.values_equal(rv, mv):
                    part.fail("returned_scalar_value", case, "scalar %s returned %r with output folder, %r in memory" % (k, rv, mv))
                    return
        nt = has_null_or_quote and bool(dsets)
        part.case(core.fingerprint([src, run_kw["script"], fmt, rop]), nt,
                  sample=dict(case, files=files) if nt and len(part.samples) < 3 else None, labels=labels + ["fmt=" + fmt, "rop=%s" % rop] + (["scalars"] if scal else []))
    finally:
        shutil.rmtree(tmp, ignore_errors=True)


def _num_eq(mv, text):
    try:
        return isinstance(mv, (int, float)) and not isinstance(mv, bool) and cmp.values_equal(float(mv), float(text))
    except ValueError:
        return False


def work_corpus(ids, offset):
    warnings.filterwarnings("ignore")
    part = core.Part()
    cases = {c["id"]: c for c in corpus.harvest()}
    combos = [("csv", False), ("parquet", False), ("csv", True), ("parquet", True)]
    for n, i in enumerate(ids):
        c = cases[i]
        fmt, rop = combos[(n + offset) % 4]
        kw = corpus.run_kwargs(c)
        if (n // 4) % 3 == 1:
            kw["time_period_output_format"] = ["sdmx_reporting", "natural", "sdmx_gregorian"][(n // 12) % 3]
        compare_case(part, i, kw, ["corpus"], fmt, rop)
    return part


TRICKY = ["", " ", "a,b", 'q"uote', "line1\nline2", "ünï€", "x" * 300, "NULL", "null", "'", "tab\there", " lead", "trail ", "\\N", "1,5"]


def work_generated(seed, n):
    warnings.filterwarnings("ignore")
    import hypothesis
    from hypothesis import given, settings, HealthCheck, strategies as st
    part = core.Part()
    S, comps, rows0 = c24.gen_struct()
    S2, dps2 = c12.gen_inputs()
    st_set = dict(max_examples=n, database=None, deadline=None, suppress_health_check=list(HealthCheck), phases=[hypothesis.Phase.generate])
    strv = st.one_of(st.none(), st.sampled_from(TRICKY), st.text(max_size=6))
    row = st.fixed_dictionaries({"Id_1": st.integers(0, 50), "Id_2": st.sampled_from(["a", "b", "c,d", 'e"f', ""]) , "Me_1": st.one_of(st.none(), st.sampled_from([0.0, 1.5, -2.25, 1e-7, 123456789.123456, 0.1 + 0.2])),
                                 "Me_2": st.one_of(st.none(), st.integers(-2**40, 2**40)), "Me_3": strv, "Me_4": st.one_of(st.none(), st.booleans()),
                                 "date": st.sampled_from([None, "2020-01-31", "2021-02-28 10:30:00", "1999-12-31T23:59:59"]),
                                 "time_period": st.sampled_from([None, "2020Q1", "2021M03", "2020-W53", "2019", "2020D366", "2020S2"]), "At_1": strv})
    rows_st = st.lists(row, min_size=0, max_size=6, unique_by=lambda r: (r["Id_1"], r["Id_2"]))
    scripts = st.sampled_from([
        "R_1 <- DS_1;", "R.v1 <- DS_1; R.v2 <- DS_1 [filter Me_2 > 0]; sc.a <- 1;", "R_1 <- DS_1 [keep Me_1]; sc_z <- 0; sc_f <- false; sc_0 <- 0.0; sc_e <- \"\"; sc_m <- 1 - 1;",
        "R_1 <- DS_1 [calc x := Me_1 * 3, s := Me_3 || \"|\"]; sc_1 <- 1 + 1; sc_2 := \"a,b\"; sc_3 <- null;",
        "R_1 := DS_1 [filter Me_2 > 0]; R_2 <- R_1 [keep Me_3, 'date'];", "R_1 <- DS_1 [filter Id_1 < 0];", "R_1 <- count(DS_1 group by Id_2); sc_1 <- max(DS_1#Me_2);",
        "R_1 <- DS_1 [keep 'time_period', 'date', Me_4]; sc_b <- true; sc_n <- 0.1 + 0.2;", "R_1 <- DS_1 [calc identifier Id_3 := Me_3] ;", "R_1 <- sum(DS_1#Me_1); R_2 := DS_1#Me_3;"])

    @settings(**st_set)
    @hypothesis.seed(seed)
    @given(scripts, rows_st, st.sampled_from(["csv", "parquet"]), st.booleans(), st.sampled_from(["vtl", "sdmx_reporting", "natural", "sdmx_gregorian"]))
    def prop(script, rows, fmt, rop, tpf):
        rows = [r for r in rows if r["Id_2"] is not None]
        kw = dict(script=script, data_structures=S, datapoints={"DS_1": eng.frame(comps, rows), "DS_2": eng.frame(comps, rows[:1])}, time_period_output_format=tpf)
        compare_case(part, "generated:values", kw, ["generated:values", "tpf=" + tpf], fmt, rop, extra=dict(rows=rows))
    prop()

    @settings(**dict(st_set, max_examples=max(5, n // 3)))
    @hypothesis.seed(seed + 1)
    @given(c12.graph_strategy(), st.sampled_from(["csv", "parquet"]), st.booleans())
    def p2(stmts, fmt, rop):
        compare_case(part, "generated:graphs", dict(script="\n".join(stmts), data_structures=S2, datapoints=dps2(), scalar_values={"sc_in": 4}), ["generated:graphs"], fmt, rop)
    p2()
    return part


def _dispatch(fname, args):
    return globals()[fname](*args)


def run(ctx):
    ctx.rule = ("cases: executable corpus scripts and Hypothesis-generated scripts+tables (strings with commas/quotes/newlines/empty, nulls, timestamps, periods in 4 output formats, "
                "scalar results incl. null), each under one (output_format, return_only_persistent) combination rotated over all 4; non-trivial = a returned dataset "
                "has a null or a string needing CSV quoting; distinct by (script, format, return_only_persistent)")
    os.environ["VERIF_TMP"] = ctx.workdir
    exe = corpus.executable_cases(max_s=2.0 if ctx.quick else None, include_nondet=False)
    if ctx.quick:
        exe = corpus.rotate(exe, ctx.seed, 130)
    ids = [c["id"] for c in exe]
    n = 15 if ctx.quick else 800
    jobs = [("work_corpus", (ids[k::16], k + ctx.seed)) for k in range(16)] + [("work_generated", (ctx.seed * 1009 + k, n)) for k in range(16)]
    ctx.merge(core.pmap("checks.c14", "_dispatch", jobs, procs=16))
    ctx.assumptions = ["CSV files are read with an own RFC 4180 reader (unquoted empty field = null, quoted empty = empty string); Parquet with pyarrow",
                       "numbers compared with relative tolerance 1e-9 after converting CSV text / Parquet Decimal to float"]


def replay(ctx, path):
    import json
    warnings.filterwarnings("ignore")
    os.environ["VERIF_TMP"] = ctx.workdir
    case = json.load(open(path))["case"]
    part = core.Part()
    src = case["source"]
    if src == "generated:values":
        S, comps, _ = c24.gen_struct()
        kw = dict(script=case["script"], data_structures=S, datapoints={"DS_1": eng.frame(comps, case["rows"]), "DS_2": eng.frame(comps, case["rows"][:1])},
                  time_period_output_format=case.get("time_period_output_format", "vtl"))
    elif src == "generated:graphs":
        S2, dps2 = c12.gen_inputs()
        kw = dict(script=case["script"], data_structures=S2, datapoints=dps2(), scalar_values={"sc_in": 4})
    else:
        c = {c["id"]: c for c in corpus.harvest()}[src]
        kw = corpus.run_kwargs(c)
        if case.get("time_period_output_format", "vtl") != "vtl":
            kw["time_period_output_format"] = case["time_period_output_format"]
    compare_case(part, src, kw, [], case["output_format"], case["return_only_persistent"])
    print("replay failures:", {k: v[2] for k, v in part.failures.items()})
    return 1 if part.failures else 0
