"""C20 — validate_dataset agrees with run() on which inputs are valid.

Differential oracle (no validity predicate consulted): validate_dataset(structures, datapoints) raises <=> run('R <- DS_1;', ...) raises a
VTL input error on the same input, for DataFrame and CSV inputs: every labelled spelling of the catalogue (valid, invalid and
undocumented alike) as a single cell, and Hypothesis tables with structural violations.  Fresh copies of the inputs for each side.
"""
import warnings
from verif import core, eng, valuecat
from checks import inputs_common as ic, c19

LEVEL = "exploration"


def side_validate(S, dp):
    from vtlengine import validate_dataset
    return ic.verdict(lambda: validate_dataset(data_structures=S, datapoints={"DS_1": dp}))


def compare(part, case, key, S, mk):
    v_val, d_val = side_validate(S, mk("v"))
    v_run, d_run = ic.run_table(S, ic.PASS, mk("r"))
    acc_val, acc_run = v_val == "ok", v_run == "ok"
    if v_val == "raw":
        part.fail("validate_raw:%s" % key, case, "validate_dataset raised a raw exception: %s" % d_val)
    if acc_val != acc_run:
        part.fail("disagree:%s:%s" % (key, "validate_accepts_run_rejects" if acc_val else "run_accepts_validate_rejects"), case,
                  "validate_dataset: %s (%s); run: %s (%s)" % (v_val, d_val if not acc_val else "", v_run, d_run if not acc_run else ""))
    return acc_val, acc_run


def work_cells(items):
    warnings.filterwarnings("ignore")
    part = core.Part()
    for typ, label, text, ok, denotes, form in items:
        comps, S = ic.structure(typ)
        header = [c["name"] for c in comps]
        rows = [["1", text], ["2", valuecat.VALID_FILL[typ]]]
        case = dict(type=typ, value_class=label, text=text, form=form)
        with ic.Tmp() as tmp:
            a, b = compare(part, case, "%s:%s" % (label, form), S, lambda tag: ic.materialise(form, comps, header, rows, tmp, tag))
        part.case("%s:%s" % (label, form), ok is not True, sample=dict(case, validate_accepts=a, run_accepts=b) if len(part.samples) < 3 else None,
                  labels=["type=" + typ, "form=" + form, "agree" if a == b else "disagree", "both_accept" if a and b else "both_reject" if not a and not b else "split"])
    return part


def work_structural(seed, n):
    warnings.filterwarnings("ignore")
    import hypothesis
    from hypothesis import given, settings, HealthCheck, strategies as st
    part = core.Part()

    @settings(max_examples=n, database=None, deadline=None, suppress_health_check=list(HealthCheck), phases=[hypothesis.Phase.generate])
    @hypothesis.seed(seed)
    @given(st.lists(st.sampled_from(c19.STRUCTURAL + ["extra_column"]), min_size=0, max_size=2, unique=True), st.sampled_from(["csv", "df"]), st.sampled_from(["Integer", "String", "Date", "Time_Period"]))
    def prop(viol, form, t_id2):
        dwi = "two_rows_without_identifiers" in viol
        if dwi:
            viol = ["two_rows_without_identifiers"]
        comps = [] if dwi else [eng.comp("Id_1", "Integer", "I"), eng.comp("Id_2", t_id2, "I")]
        comps += [eng.comp("Me_1", "Number", "M", False), eng.comp("Me_2", "String", "M", True)]
        S = eng.structures(eng.structure("DS_1", comps))
        vals = {"Integer": ["1", "2", "3"], "String": list("abc"), "Date": ["2020-01-01", "2020-01-02", "2020-01-03"], "Time_Period": ["2020Q1", "2020-Q2", "2020M7"]}[t_id2]
        header = [c["name"] for c in comps]
        rows = [[{"Id_1": "1", "Id_2": vals[i], "Me_1": "1.5", "Me_2": "x"}[h] for h in header] for i in range(2 if dwi else 3)]
        if "duplicate_key" in viol and not dwi:
            rows.append(list(rows[0]))
            if t_id2 == "Time_Period": rows[-1][1] = "2020-Q1"
        if "null_identifier" in viol and not dwi: rows[1][header.index("Id_2")] = None
        if "null_in_non_nullable" in viol: rows[0][header.index("Me_1")] = None
        if "extra_column" in viol: header = header + ["EXTRA"]; rows = [r + ["e"] for r in rows]
        if "missing_identifier_column" in viol and not dwi:
            j = header.index("Id_2"); header = header[:j] + header[j + 1:]; rows = [r[:j] + r[j + 1:] for r in rows]
        if "missing_non_nullable_column" in viol:
            j = header.index("Me_1"); header = header[:j] + header[j + 1:]; rows = [r[:j] + r[j + 1:] for r in rows]
        case = dict(violations=viol, form=form, id2_type=t_id2, header=header, rows=rows)
        with ic.Tmp() as tmp:
            a, b = compare(part, case, "structural:%s:%s" % ("+".join(viol) or "none", form), S, lambda tag: ic.materialise(form, comps, header, rows, tmp, tag))
        part.case(core.fingerprint(case), bool(viol), sample=case if len(part.samples) < 2 else None, labels=["structural", "form=" + form, "agree" if a == b else "disagree"] + viol)
    prop()
    return part


TYPED_DUPLICATES = [("Integer", "7", "07"), ("Integer", "1", "1.0"), ("Integer", "5", " 5"), ("Number", "1.5", "1.50"), ("Number", "2", "2.0"), ("Boolean", "true", "TRUE"), ("Boolean", "true", "1"),
                    ("Time_Period", "2020Q1", "2020-Q1"), ("Time_Period", "2020M1", "2020-01"), ("Time_Period", "2020", "2020A"), ("Time_Period", "2020D15", "2020-01-15"),
                    ("Date", "2020-01-01", "2020-01-01 00:00:00"), ("String", "a", "a"), ("String", "a", "A"), ("Duration", "A", "A")]


def work_typed_duplicates():
    """Two rows whose identifier values are different spellings of the same typed value (duplicates only after typing), CSV and DataFrame."""
    warnings.filterwarnings("ignore")
    part = core.Part()
    for typ, a, b in TYPED_DUPLICATES:
        for form in ("csv", "df"):
            comps = [eng.comp("Id_1", "Integer", "I"), eng.comp("Id_2", typ, "I"), eng.comp("Me_1", "Number")]
            S = eng.structures(eng.structure("DS_1", comps))
            header = ["Id_1", "Id_2", "Me_1"]
            rows = [["1", a, "1.5"], ["1", b, "2.5"], ["2", a, "3.5"]]
            case = dict(type=typ, spellings=[a, b], form=form, rows=rows)
            with ic.Tmp() as tmp:
                x, y = compare(part, case, "typed_duplicate:%s:%s=%s:%s" % (typ, a, b.strip() or b, form), S, lambda tag: ic.materialise(form, comps, header, rows, tmp, tag))
            part.case("typed_duplicate:%s:%s:%s:%s" % (typ, a, b, form), True, labels=["typed_duplicate", "type=" + typ, "form=" + form, "agree" if x == y else "disagree"])
    return part


def _dispatch(fname, args):
    return globals()[fname](*args)


def run(ctx):
    ctx.rule = ("cases: every labelled spelling of the catalogue (valid, invalid and undocumented) as one cell of a two-row table in CSV and string-DataFrame form, plus Hypothesis tables with 0-2 structural violations "
                "(incl. an extra column) and 15 pairs of identifier spellings that are duplicates only after typing; oracle = agreement of validate_dataset with run('R <- DS_1;'); non-trivial = spelling that is not documented-valid, or a table with a violation")
    items = [(typ, label, text, ok, den, form) for typ, es in valuecat.CATALOGUE.items() for label, text, ok, den in es for form in ("csv", "df") if not (form == "csv" and '"' in text)]
    n = 25 if ctx.quick else 500
    jobs = [("work_cells", (items[k::12],)) for k in range(12)] + [("work_structural", (ctx.seed * 1009 + k, n)) for k in range(4)] + [("work_typed_duplicates", ())]
    ctx.merge(core.pmap("checks.c20", "_dispatch", jobs, procs=16))
    ctx.assumptions = ["run() rejecting = DataLoadError or InputValidationException; any other outcome of run() (including other VTL errors and raw exceptions) counts as run() not accepting"]


def replay(ctx, path):
    import json
    c = json.load(open(path))["case"]
    if "value_class" in c:
        ent = [e for e in valuecat.CATALOGUE[c["type"]] if e[0] == c["value_class"]][0]
        p = work_cells([(c["type"],) + ent + (c["form"],)])
    else:
        p = work_structural(1, 40)
    print("replay failures:", {k: v[2] for k, v in p.failures.items()})
    return 1 if p.failures else 0
