"""C13 — dataset load/release schedule is safe and results are selected correctly.

Part A (model, EXHAUSTIVE for the bound, then sampled): dependency graphs (<=4 statements, <=2 global inputs, fan-in <=2, all
persistent masks, all textual orders in the thorough tier) are rendered to scripts; DAGAnalyzer.ds_structure of the parsed script is
replayed against an abstract table store: load insertion[k], require every true input of statement k resident, create its output,
release deletion[k].  Invariants: only global inputs are loaded and each at most once; nothing is released while a later statement
still reads it; every table is released exactly once; the store is empty at the end; persistent / global_inputs / all_outputs equal
the constructed sets.
Part B (real traces): a delegating connection proxy records, as catalog diffs, the real create/drop history of run() for generated
graphs (tiny data) and corpus cases; the same invariants are checked on the observed history, plus result selection
(persistent only / all, each equal to the value computed with return_only_persistent=False).
"""
import contextlib, itertools, warnings
from verif import core, corpus, cmp, eng

LEVEL = "model_checking"


# ---------------------------------------------------------------- graphs
def enumerate_graphs(max_stmts, max_inputs):
    """yield (stmts) with stmts = [(name, persistent, [read names])]; reads are earlier outputs or inputs, fan-in 1..2"""
    inputs = ["DS_%d" % i for i in range(1, max_inputs + 1)]
    def rec(k, stmts):
        if k > 0:
            yield list(stmts)
        if k == max_stmts:
            return
        avail = inputs + [s[0] for s in stmts]
        name = "R_%d" % (k + 1)
        for reads in [list(c) for r in (1, 2) for c in itertools.combinations(avail, r)]:
            for pers in (False, True):
                stmts.append((name, pers, reads))
                yield from rec(k + 1, stmts)
                stmts.pop()
    yield from rec(0, [])


def enumerate_clause_graphs(max_stmts):
    """Typed graphs over one input dataset in which scalar results are read inside clause bodies: stmts = [(name, persistent,
    reads, kind)] with kind in const (scalar literal), sfrom (scalar from scalar), mul (dataset * 2), calc / filter (dataset
    clause whose body reads a scalar result).  Only graphs with at least one clause statement are produced."""
    def rec(k, stmts, types):
        if k > 0 and any(s[3] in ("calc", "filter") for s in stmts):
            yield list(stmts)
        if k == max_stmts:
            return
        name = "R_%d" % (k + 1)
        D = ["DS_1"] + [n for n, t in types.items() if t == "D"]
        Sc = [n for n, t in types.items() if t == "S"]
        opts = [("const", [], "S")] + [("sfrom", [x], "S") for x in Sc] + [("mul", [a], "D") for a in D]
        opts += [(kind, [a, x], "D") for kind in ("calc", "filter") for a in D for x in Sc]
        for kind, reads, typ in opts:
            for pers in (False, True):
                stmts.append((name, pers, reads, kind)); types[name] = typ
                yield from rec(k + 1, stmts, types)
                stmts.pop(); del types[name]
    yield from rec(0, [], {})


def render(stmts, order=None):
    lines = []
    for st in stmts:
        name, pers, reads = st[:3]
        kind = st[3] if len(st) > 3 else None
        expr = None
        if kind is None or kind == "mul":
            expr = reads[0] + " * 2" if len(reads) == 1 else "%s + %s" % (reads[0], reads[1])
        elif kind == "const":
            expr = str(1 + int(name[2:]))
        elif kind == "sfrom":
            expr = "%s + 1" % reads[0]
        elif kind == "calc":
            expr = "%s [calc Me_1 := Me_1 + %s]" % (reads[0], reads[1])
        elif kind == "filter":
            expr = "%s [filter Me_1 > %s]" % (reads[0], reads[1])
        lines.append("%s %s %s;" % (name, "<-" if pers else ":=", expr))
    if order is not None:
        lines = [lines[i] for i in order]
    return "\n".join(lines)


def check_schedule(stmts, sched, stmt_order):
    """Replay the schedule against an abstract store. stmt_order: names of the assignments in execution order. -> None | text"""
    by_name = {s[0]: s for s in stmts}
    outputs = set(by_name)
    used_inputs = {r for s in stmts for r in s[2] if r not in outputs}
    store, loaded, released = set(), [], []
    last_reader = {}
    for k, name in enumerate(stmt_order, 1):
        for r in by_name[name][2]:
            last_reader[r] = k
    for k, name in enumerate(stmt_order, 1):
        for t in sched.insertion.get(k, []):
            if t in outputs:
                return "statement %d: loads %s which is an output of the script" % (k, t)
            if t in loaded:
                return "statement %d: input %s loaded twice" % (k, t)
            loaded.append(t); store.add(t)
        for r in by_name[name][2]:
            if r not in store:
                return "statement %d (%s) reads %s which is not resident (loaded %r, released %r)" % (k, name, r, loaded, released)
        store.add(name)
        for t in sched.deletion.get(k, []):
            if t not in store:
                return "statement %d: releases %s which is not resident" % (k, t)
            if t in released:
                return "statement %d: %s released twice" % (k, t)
            if last_reader.get(t, 0) > k:
                return "statement %d: releases %s before its last reader (statement %d)" % (k, t, last_reader[t])
            released.append(t); store.discard(t)
    if store:
        return "tables never released: %r" % sorted(store)
    if set(loaded) != used_inputs:
        return "loaded inputs %r, inputs read by the script %r" % (sorted(loaded), sorted(used_inputs))
    if sorted(sched.persistent) != sorted(s[0] for s in stmts if s[1]):
        return "persistent %r, constructed %r" % (sorted(sched.persistent), sorted(s[0] for s in stmts if s[1]))
    if sorted(sched.global_inputs) != sorted(used_inputs):
        return "global_inputs %r, constructed %r" % (sorted(sched.global_inputs), sorted(used_inputs))
    if sorted(sched.all_outputs) != sorted(outputs):
        return "all_outputs %r, constructed %r" % (sorted(sched.all_outputs), sorted(outputs))
    return None


def work_model(shard, nshards, max_stmts, max_inputs, all_orders):
    warnings.filterwarnings("ignore")
    from vtlengine.API import create_ast
    from vtlengine.AST.DAG import DAGAnalyzer
    part = core.Part()
    states = transitions = 0
    for gi, stmts in enumerate(itertools.chain(enumerate_graphs(max_stmts, max_inputs), enumerate_clause_graphs(max_stmts))):
        if gi % nshards != shard:
            continue
        n = len(stmts)
        if len(stmts[0]) > 3:
            part.hist["clause_graphs"] += 1
        orders = list(itertools.permutations(range(n))) if all_orders and n <= 3 else [tuple(range(n)), tuple(reversed(range(n)))] if n > 1 else [(0,)]
        for order in orders:
            script = render(stmts, order)
            ast = create_ast(script)
            sched = DAGAnalyzer.ds_structure(ast)
            stmt_order = [c.left.value for c in ast.children if type(c).__name__ in ("Assignment", "PersistentAssignment")]
            readers = {}
            for s in stmts:
                for r in s[2]:
                    readers[r] = readers.get(r, 0) + 1
            nt = any(v >= 2 for v in readers.values()) and n >= 3
            part.case("g%d:%r" % (gi, order), nt, sample=dict(script=script, insertion=sched.insertion, deletion=sched.deletion) if nt and len(part.samples) < 2 else None, labels=["model", "n=%d" % n])
            states += n + 1; transitions += n + sum(len(v) for v in sched.insertion.values()) + sum(len(v) for v in sched.deletion.values())
            msg = check_schedule(stmts, sched, stmt_order)
            if msg:
                part.fail("model:" + msg.split(":")[-1].strip().split(" ")[0] + ":" + msg.split(" ")[2 if msg.startswith("statement") else 0], dict(script=script, insertion=sched.insertion, deletion=sched.deletion), msg)
    part.hist["states"] = states
    part.hist["transitions"] = transitions
    return part


# ---------------------------------------------------------------- real traces
class Proxy:
    """Delegating connection proxy: after every call that can change the catalog, diff duckdb_tables() into create/drop events."""

    def __init__(self, conn, log):
        object.__setattr__(self, "_c", conn)
        object.__setattr__(self, "_log", log)
        object.__setattr__(self, "_tables", set())

    def _snap(self, what):
        try:
            now = {r[0] for r in self._c.execute("SELECT table_name FROM duckdb_tables()").fetchall()}
        except Exception:
            return
        old = self._tables
        for t in sorted(now - old):
            self._log.append(("create", t, what[:40]))
        for t in sorted(old - now):
            self._log.append(("drop", t, what[:40]))
        object.__setattr__(self, "_tables", now)

    def execute(self, q, *a, **k):
        r = self._c.execute(q, *a, **k)
        head = q.lstrip()[:12].upper() if isinstance(q, str) else ""
        if not head.startswith("SELECT"):
            self._snap(q if isinstance(q, str) else "?")
            return self._c if r is self._c else r
        return r

    def sql(self, q, *a, **k):
        r = self._c.sql(q, *a, **k)
        self._snap(str(q))
        return r

    def register(self, *a, **k):
        r = self._c.register(*a, **k)
        self._snap("register")
        return r

    def __getattr__(self, n):
        return getattr(self._c, n)


@contextlib.contextmanager
def traced(log):
    import vtlengine.API as api
    real = api.configured_connection

    @contextlib.contextmanager
    def wrapper(*a, **k):
        with real(*a, **k) as conn:
            yield Proxy(conn, log)
    api.configured_connection = wrapper
    try:
        yield
    finally:
        api.configured_connection = real


def check_trace(log, reads_by_stmt, stmt_order, inputs_used):
    """Observed create/drop history vs statements: -> None | text"""
    resident, created, dropped = set(), [], []
    pos = {name: i for i, name in enumerate(stmt_order)}
    last_reader = {}
    for name in stmt_order:
        for r in reads_by_stmt[name]:
            last_reader[r] = pos[name]
    done = -1
    for ev, t, what in log:
        if ev == "create":
            if t in created and t in inputs_used:
                return "input %s loaded twice" % t
            created.append(t); resident.add(t)
            if t in pos:
                for r in reads_by_stmt[t]:
                    if r not in resident:
                        return "statement %s ran while %s was not resident" % (t, r)
                done = pos[t]
        else:
            if t in dropped:
                return "%s dropped twice" % t
            if last_reader.get(t, -1) > done:
                return "%s dropped before its last reader %s ran" % (t, stmt_order[last_reader[t]])
            dropped.append(t); resident.discard(t)
    left = {t for t in resident if not t.startswith("__")}
    if left:
        return "tables left in the catalog at the end: %r" % sorted(left)
    return None


def run_traced(script, kw, reads_by_stmt=None):
    from vtlengine import run
    from vtlengine.API import create_ast
    log = []
    with traced(log):
        res_p = run(**dict(kw, script=script, return_only_persistent=True))
    res_all = run(**dict(kw, script=script, return_only_persistent=False))
    return log, res_p, res_all


def analyse(script):
    """(stmt_order, reads per assignment, inputs, persistent names) from the engine-independent statement texts is not possible
    for corpus scripts: use the DAG of a *separate* parse only to know which names are assignments; reads come from it too."""
    from vtlengine.API import create_ast
    from vtlengine.AST.DAG import DAGAnalyzer
    ast = create_ast(script)
    dag = DAGAnalyzer()
    dag.visit(ast)
    order, reads, pers = [], {}, []
    outs = set()
    for k in sorted(dag.dependencies):
        st = dag.dependencies[k]
        name = (st.outputs + st.persistent)[0]
        order.append(name); reads[name] = list(st.inputs); outs.add(name)
        if st.persistent:
            pers.append(name)
    inputs = {r for v in reads.values() for r in v if r not in outs}
    return order, reads, inputs, pers


def work_traces_generated(shard, nshards, stride=1):
    warnings.filterwarnings("ignore")
    part = core.Part()
    comps = [eng.comp("Id_1", "Integer", "I"), eng.comp("Me_1", "Number")]
    S = eng.structures(*[eng.structure("DS_%d" % i, comps) for i in (1, 2)])
    def dps():
        return {"DS_%d" % i: eng.frame(comps, [{"Id_1": 1, "Me_1": float(i)}, {"Id_1": 2, "Me_1": 2.5}]) for i in (1, 2)}
    for gi, stmts in enumerate(itertools.chain(enumerate_graphs(3, 2), enumerate_clause_graphs(3))):
        if gi % nshards != shard or (gi // nshards) % stride:
            continue
        n = len(stmts)
        order = tuple(reversed(range(n))) if gi % 2 else tuple(range(n))
        script = render(stmts, order)
        reads = {s[0]: s[2] for s in stmts}
        inputs = {r for s in stmts for r in s[2] if not r.startswith("R_")}
        from vtlengine.API import create_ast
        stmt_order = [c.left.value for c in create_ast(script).children]
        case = dict(script=script)
        try:
            log, res_p, res_all = run_traced(script, dict(data_structures=S, datapoints=dps()))
        except Exception as e:  # noqa
            part.fail("trace:run_failed:%s" % eng.classify_exc(e), case, str(e)[:200]); continue
        part.case("trace:g%d" % gi, n >= 2, sample=dict(script=script, history=log[:12]) if len(part.samples) < 2 else None, labels=["trace_generated", "n=%d" % n] + (["scalar_in_clause"] if len(stmts[0]) > 3 else []))
        part.hist["traces_validated_against_impl"] += 1
        msg = check_trace(log, reads, stmt_order, inputs)
        if msg:
            part.fail("trace:" + msg.split(" ")[1] + ":" + msg.split(" ")[-3], dict(case, history=log), msg); continue
        want = sorted(s[0] for s in stmts if s[1])
        if sorted(res_p) != want:
            part.fail("selection:persistent_only", case, "returned %r, persistent assignments %r" % (sorted(res_p), want)); continue
        if sorted(res_all) != sorted(s[0] for s in stmts):
            part.fail("selection:all", case, "returned %r with return_only_persistent=False, assignments %r" % (sorted(res_all), sorted(s[0] for s in stmts))); continue
        d = cmp.diff_results(cmp.canon_results(res_p), {k: v for k, v in cmp.canon_results(res_all).items() if k in res_p})
        if d:
            part.fail("selection:value_differs", case, d)
    return part


def work_traces_corpus(ids):
    warnings.filterwarnings("ignore")
    part = core.Part()
    cases = {c["id"]: c for c in corpus.harvest()}
    for i in ids:
        c = cases[i]
        kw = corpus.run_kwargs(c); kw.pop("script"); kw.pop("return_only_persistent")
        try:
            stmt_order, reads, inputs, pers = analyse(c["script"])
            log, res_p, res_all = run_traced(c["script"], kw)
        except Exception:
            part.hist["corpus_run_failed"] += 1
            continue
        # input scalars are not tables: keep only reads that are datasets of the case or outputs of the script
        tables = set(c["dps"]) | set(stmt_order)
        reads = {k: [r for r in v if r in tables] for k, v in reads.items()}
        inputs = {r for r in inputs if r in tables}
        part.case("trace:" + i, len(stmt_order) >= 2, labels=["trace_corpus"])
        part.hist["traces_validated_against_impl"] += 1
        msg = check_trace(log, reads, stmt_order, inputs)
        if msg:
            part.fail("trace:" + msg.split(" ")[1] + ":" + msg.split(" ")[-3], dict(source=i, history=log[:40]), msg); continue
        if sorted(res_p) != sorted(pers):
            part.fail("selection:persistent_only", dict(source=i), "returned %r, persistent assignments %r" % (sorted(res_p), sorted(pers))); continue
        d = cmp.diff_results(cmp.canon_results(res_p), {k: v for k, v in cmp.canon_results(res_all).items() if k in res_p})
        if d:
            part.fail("selection:value_differs", dict(source=i), d)
    return part


def _dispatch(fname, args):
    return globals()[fname](*args)


def run(ctx):
    q = ctx.quick
    ctx.rule = ("Part A: every dependency graph with <=%d statements over <=2 global inputs (fan-in 1-2, every persistent mask) and every typed graph of that size in which scalar results are read inside calc/filter bodies, in %s textual orders, replayed against an abstract table store; "
                "Part B: real create/drop histories of run() (catalog-diff connection proxy) for graphs with <=3 statements (quick: every 5th, thorough: all) and a slice of the corpus; non-trivial = graph with a table read by >=2 statements and >=3 statements "
                "(traces: >=2 statements)" % (3 if q else 4, "identity and reversed" if q else "all (n<=3) / identity and reversed"))
    ctx.exhaustive = True
    ns = 8
    jobs = [("work_model", (k, ns, 3 if q else 4, 2, not q)) for k in range(ns)] + [("work_traces_generated", (k, 6, 5 if q else 1)) for k in range(6)]
    exe = [c for c in corpus.executable_cases(max_s=1.0) if c["script"].count(";") >= 2]
    ids = [c["id"] for c in corpus.rotate(exe, ctx.seed, 30 if q else len(exe))]
    jobs += [("work_traces_corpus", (ids[k::2],)) for k in range(2)]
    ctx.merge(core.pmap("checks.c13", "_dispatch", jobs, procs=16))
    h = ctx.part.hist
    ctx.extra.update(states=int(h.pop("states", 0)), transitions=int(h.pop("transitions", 0)), traces_validated_against_impl=int(h.get("traces_validated_against_impl", 0)))
    ctx.assumptions = ["the abstract store models tables as names; the true readers of a statement are known by construction (generated graphs) or taken from the DAG visitor's per-statement inputs (corpus traces)",
                       "create/drop events are catalog diffs taken after every non-SELECT call on the proxied connection"]


def replay(ctx, path):
    import json
    c = json.load(open(path))["case"]
    print("replay: script\n" + c.get("script", c.get("source", "")))
    run(ctx)
    key = json.load(open(path))["key"]
    print("REPRODUCED" if key in ctx.part.failures else "not reproduced")
    return 1 if key in ctx.part.failures else 0
