"""C25 — generate_sdmx produces a TransformationScheme equivalent to the script.

Oracle: (1) one Transformation per assignment, same result name / persistence, same order;
(2) `result <- expression` of each transformation re-parses to the original assignment (AST equality
ignoring positions); (3) every ruleset / UDO definition text re-parses to the original definition node;
(4) run(scheme) == run(script) as keyed sets on executable cases.
"""
import re, warnings
from verif import core, corpus, astnorm, cmp, eng
from checks import c24

LEVEL = "exploration"
VIRAL = re.compile(r"define\s+viral\s+propagation")


def check_script(script, deep=None):
    from vtlengine import generate_sdmx
    from vtlengine.API import create_ast
    from vtlengine.Exceptions import VTLEngineException
    facts = {}
    try:
        a0 = create_ast(script)
    except VTLEngineException:
        return ("unparseable", None, facts)
    except Exception:
        return ("unparseable", None, facts)
    kinds = [type(c).__name__ for c in a0.children]
    assigns = [c for c in a0.children if type(c).__name__ in ("Assignment", "PersistentAssignment")]
    defs = [c for c in a0.children if type(c).__name__ in ("DPRuleset", "HRuleset", "Operator")]
    facts.update(assignments=len(assigns), rulesets=sum(k in ("DPRuleset", "HRuleset") for k in kinds), udos=kinds.count("Operator"),
                 viral=kinds.count("ViralPropagationDef"), persistent=kinds.count("PersistentAssignment"))
    try:
        scheme = generate_sdmx(script, agency_id="MD", id="VERIF", version="1.0")
    except Exception as e:  # noqa
        return ("generate_raises:%s:%s" % (type(e).__name__, eng.innermost_frame(e)), "generate_sdmx raised %s: %s" % (type(e).__name__, str(e)[:200]), facts)
    items = list(scheme.items)
    if len(items) != len(assigns):
        return ("transformation_count", "%d transformations for %d assignments" % (len(items), len(assigns)), facts)
    ids = [t.id for t in items]
    if len(set(ids)) != len(ids):
        return ("duplicate_transformation_ids", "ids %r" % ids, facts)
    for k, (t, a) in enumerate(zip(items, assigns)):
        name = a.left.value
        pers = type(a).__name__ == "PersistentAssignment"
        if t.result != name:
            return ("result_name", "transformation %d result %r, assignment %r" % (k, t.result, name), facts)
        if bool(t.is_persistent) != pers:
            return ("persistence", "transformation %d (%s) is_persistent=%r, assignment persistent=%r" % (k, name, t.is_persistent, pers), facts)
        txt = "%s %s %s;" % (c24_name(name), "<-" if pers else ":=", t.expression)
        try:
            a1 = create_ast(txt)
        except Exception as e:  # noqa
            return ("expression_unparseable", "expression of %s does not re-parse: %s" % (name, str(e)[:200]), dict(facts, expr=t.expression))
        d = astnorm.first_diff(astnorm.norm(a.right), astnorm.norm(a1.children[0].right))
        if d:
            kind = ".".join(re.sub(r"\[\d+\]|#len", "", d[0]).split(".")[-4:])
            return ("expression_ast_diff:%s" % kind, "expression of %s differs at %s: %s vs %s" % (name, d[0], repr(d[1])[:100], repr(d[2])[:100]), dict(facts, expr=t.expression))
    carried = []
    for rs in (getattr(scheme, "ruleset_schemes", None) or []):
        carried += [("ruleset", r.ruleset_definition) for r in rs.items]
    for us in (getattr(scheme, "user_defined_operator_schemes", None) or []):
        carried += [("udo", u.operator_definition) for u in us.items]
    if len(carried) != len(defs):
        return ("definition_count", "%d definitions carried for %d rulesets/operators" % (len(carried), len(defs)), facts)
    rs_defs = [d for d in defs if type(d).__name__ != "Operator"] + [d for d in defs if type(d).__name__ == "Operator"]
    for (kind, text), node in zip(carried, rs_defs):
        try:
            a1 = create_ast(text if text.rstrip().endswith(";") else text + ";")
        except Exception as e:  # noqa
            return ("definition_unparseable:%s" % kind, "%s definition does not re-parse: %s" % (kind, str(e)[:200]), dict(facts, text=text))
        if len(a1.children) != 1:
            return ("definition_shape:%s" % kind, "definition text parses to %d statements" % len(a1.children), dict(facts, text=text))
        d = astnorm.first_diff(astnorm.norm(node), astnorm.norm(a1.children[0]))
        if d:
            k2 = ".".join(re.sub(r"\[\d+\]|#len", "", d[0]).split(".")[-4:])
            return ("definition_ast_diff:%s:%s" % (kind, k2), "%s differs at %s: %s vs %s" % (kind, d[0], repr(d[1])[:100], repr(d[2])[:100]), dict(facts, text=text))
    if deep is not None:
        dd = deep(scheme)
        if dd:
            return (("viral_definition_not_carried" if facts["viral"] else "run_diff"), dd, facts)
    return (None, None, facts)


def c24_name(name):
    from vtlengine.AST.Grammar._cpp_parser import LITERAL_NAMES
    return "'%s'" % name if "'%s'" % name in LITERAL_NAMES else name


def _nontrivial(facts):
    return bool(facts.get("rulesets") or facts.get("udos") or (facts.get("persistent") and facts.get("persistent") < facts.get("assignments", 0)))


def work_corpus(ids, with_run, excl):
    warnings.filterwarnings("ignore")
    from vtlengine import run
    part = core.Part()
    cases = {c["id"]: c for c in c24.all_sources()}
    for i in ids:
        c = cases[i]
        if not c["script"].strip():
            part.excluded["empty_script"] += 1   # no transformation to carry: outside the property's domain (pysdmx rejects an empty TransformationScheme)
            continue
        deep = None
        if with_run and c.get("structs") and not c.get("nondet"):
            if "viral_definition_not_carried" in excl and VIRAL.search(c["script"]):
                part.excluded["viral_definition_not_carried"] += 1
            else:
                def deep(scheme, c=c):
                    try:
                        r0 = cmp.canon_results(run(**corpus.run_kwargs(c)))
                    except Exception:
                        part.hist["run_original_failed"] += 1
                        return None
                    try:
                        r1 = cmp.canon_results(run(**corpus.run_kwargs(c, script=scheme)))
                    except Exception as e:  # noqa
                        return "run(scheme) raised %s: %s while run(script) succeeded" % (type(e).__name__, str(e)[:200])
                    part.hist["run_compared"] += 1
                    return cmp.diff_results(r0, r1)
        key, what, facts = check_script(c["script"], deep)
        if key == "unparseable":
            part.hist["corpus_unparseable"] += 1
            continue
        nt = _nontrivial(facts)
        part.case("corpus:" + i, nt, sample=dict(source=i, script=c["script"][:200], facts=facts) if nt and len(part.samples) < 2 else None,
                  labels=["corpus"] + [k for k in ("rulesets", "udos", "viral") if facts.get(k)])
        if key:
            part.fail(key, dict(source=i, script=c["script"]), what)
    return part


def work_generated(seed, n, excl):
    warnings.filterwarnings("ignore")
    import hypothesis
    from hypothesis import given, settings, HealthCheck
    from vtlengine import run
    part = core.Part()
    S, comps, rows = c24.gen_struct()
    def dps():
        return {"DS_1": eng.frame(comps, rows), "DS_2": eng.frame(comps, rows[:2])}

    @settings(max_examples=n, database=None, deadline=None, suppress_health_check=list(HealthCheck), phases=[hypothesis.Phase.generate])
    @hypothesis.seed(seed)
    @given(c24.script_strategy(set()))
    def prop(script):
        def deep(scheme):
            try:
                r0 = cmp.canon_results(run(script=script, data_structures=S, datapoints=dps(), return_only_persistent=False))
            except Exception:
                part.hist["gen_run_original_failed"] += 1
                return None
            try:
                r1 = cmp.canon_results(run(script=scheme, data_structures=S, datapoints=dps(), return_only_persistent=False))
            except Exception as e:  # noqa
                return "run(scheme) raised %s: %s while run(script) succeeded" % (type(e).__name__, str(e)[:200])
            part.hist["run_compared"] += 1
            return cmp.diff_results(r0, r1)
        key, what, facts = check_script(script, deep)
        if key == "unparseable":
            part.hist["gen_unparseable"] += 1
            return
        part.case(core.fingerprint(script), _nontrivial(facts), sample=dict(source="generated", script=script) if len(part.samples) < 2 else None,
                  labels=["generated"] + [k for k in ("rulesets", "udos") if facts.get(k)])
        if key:
            part.fail(key, dict(source="generated", script=script), what)
    prop()
    return part


PROBE_VIRAL = """define viral propagation vp1 (variable At_1) is
  aggregate max
end viral propagation;
DS_r <- DS_1 + DS_2;"""


def probe_known():
    warnings.filterwarnings("ignore")
    from vtlengine import run
    part = core.Part()
    comps = [eng.comp("Id_1", "Integer", "I"), eng.comp("Me_1", "Number"), eng.comp("At_1", "Integer", "V")]
    S = eng.structures(eng.structure("DS_1", comps), eng.structure("DS_2", comps))
    rows = [{"Id_1": 1, "Me_1": 1.0, "At_1": 1}, {"Id_1": 2, "Me_1": 2.0, "At_1": 5}]
    def dps():
        return {"DS_1": eng.frame(comps, rows), "DS_2": eng.frame(comps, rows)}
    def deep(scheme):
        try:
            r0 = cmp.canon_results(run(script=PROBE_VIRAL, data_structures=S, datapoints=dps()))
        except Exception as e:  # noqa
            part.notes.append("viral probe: run(script) failed: %s" % e)
            return None
        try:
            r1 = cmp.canon_results(run(script=scheme, data_structures=S, datapoints=dps()))
        except Exception as e:  # noqa
            return "run(scheme) raised %s: %s while run(script) succeeded" % (type(e).__name__, str(e)[:200])
        return cmp.diff_results(r0, r1)
    key, what, facts = check_script(PROBE_VIRAL, deep)
    part.case("probe:viral", True, labels=["known_finding_probe"])
    if key and key != "unparseable":
        part.fail(key, dict(source="probe", script=PROBE_VIRAL, structures=S), what)
    return part


def _dispatch(fname, args):
    return globals()[fname](*args)


def run(ctx):
    ctx.rule = ("cases: every parseable .vtl of the upstream corpus + Hypothesis-generated scripts (C24 grammar: rulesets, UDOs, persistent/temporary mixes); "
                "non-trivial = script with a ruleset or UDO, or with both persistent and temporary assignments; distinct by script text")
    excl = sorted(ctx.excluded_keys())
    srcs = c24.all_sources()
    exe = {c["id"] for c in corpus.executable_cases(max_s=3.0 if ctx.quick else None)}
    ids = [c["id"] for c in (corpus.rotate(srcs, ctx.seed, 700) if ctx.quick else srcs)]
    run_ids = [i for i in ids if i in exe]
    if ctx.quick:
        run_ids = run_ids[:120]
    rs = set(run_ids)
    norun = [i for i in ids if i not in rs]
    n = 40 if ctx.quick else 1500
    jobs = [("work_corpus", (norun[k::8], False, excl)) for k in range(8)] + [("work_corpus", (run_ids[k::16], True, excl)) for k in range(16)]
    jobs += [("work_generated", (ctx.seed * 1009 + k, n, excl)) for k in range(16)]
    jobs += [("probe_known", ())]
    ctx.merge(core.pmap("checks.c25", "_dispatch", jobs, procs=16))
    ctx.assumptions = ["parse trees come from the parser stand-in (ANTLR 4.11.1 Java interpreter over the repo's ATN), SLL mode",
                       "run(scheme) goes through pysdmx.toolkit.vtl.generate_vtl_script (installed pysdmx)",
                       "scripts with `define viral propagation` are excluded from the run-level comparison while the known finding is open (one dedicated probe reports it)"]


def replay(ctx, path):
    import json
    case = json.load(open(path))["case"]
    key, what, facts = check_script(case["script"])
    print("replay:", key, what)
    return 1 if key and key != "unparseable" else 0
