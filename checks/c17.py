"""C17 — concurrent API calls behave like sequential ones.

Oracle: every call's outcome (results as keyed sets, or exception class + message) equals its outcome when executed alone.
Schedules: (a) FORCED - a sys.settrace-based gate scheduler stops every thread at the engine's shared-state access points (parse,
semantic pass, registry set/get, virtual counters, period representation, transpile, execute, fetch) and a Hypothesis-generated
list of picks decides which thread proceeds, so the harness owns the interleaving; all schedules of a small pair set with few
context switches are enumerated, others sampled; (b) STRESS - 8 threads x N iterations with a microsecond switch interval.
Calls mix run / semantic_analysis / prettify / create_ast over scripts chosen to differ in process-global state (viral propagation
rules, time-period output format, failing vs passing scripts whose messages name the output dataset).
"""
import itertools, sys, threading, time, warnings
from verif import core, eng, cmp

LEVEL = "exploration"
GATES = {"set_current_registry", "get_current_registry", "_new_ds_name", "_new_dc_name", "set_representation", "check_value", "create_ast", "visit_Start",
         "transpile", "execute_queries", "fetch_result", "set_decimal_config", "reset"}
LINE_GATES = {"visit_Start", "check_value"}


# ---------------------------------------------------------------- calls
def inputs():
    comps = [eng.comp("Id_1", "Integer", "I"), eng.comp("Id_p", "Time_Period", "I"), eng.comp("Me_1", "Number"), eng.comp("At_1", "Integer", "V")]
    S = eng.structures(eng.structure("DS_1", comps), eng.structure("DS_2", comps))
    def dps():
        return {"DS_1": eng.frame(comps, [{"Id_1": 1, "Id_p": "2020Q1", "Me_1": 1.5, "At_1": 1}, {"Id_1": 2, "Id_p": "2020M03", "Me_1": 2.0, "At_1": 7}]),
                "DS_2": eng.frame(comps, [{"Id_1": 1, "Id_p": "2020Q1", "Me_1": 10.0, "At_1": 5}, {"Id_1": 2, "Id_p": "2020M03", "Me_1": 20.0, "At_1": 3}])}
    return S, dps


VP_MAX = "define viral propagation vp1 (variable At_1) is aggregate max end viral propagation;\n"
VP_MIN = "define viral propagation vp1 (variable At_1) is aggregate min end viral propagation;\n"
CALLS = {
    "run_viral_max": ("run", dict(script=VP_MAX + "R <- DS_1 + DS_2;")),
    "run_viral_min": ("run", dict(script=VP_MIN + "R <- DS_1 + DS_2;")),
    "run_fmt_vtl": ("run", dict(script=VP_MAX + "R <- DS_1 [calc x := Me_1 * 2];", time_period_output_format="vtl")),
    "run_fmt_reporting": ("run", dict(script=VP_MAX + "R <- DS_1 [calc x := Me_1 * 3];", time_period_output_format="sdmx_reporting")),
    "run_cast_vtl": ("run", dict(script=VP_MAX + 'R <- DS_1 [calc s := cast(Id_p, string)]; sc <- cast(cast("2020Q1", time_period), string);', time_period_output_format="vtl")),
    "run_cast_reporting": ("run", dict(script=VP_MAX + 'R <- DS_1 [calc s := cast(Id_p, string)]; sc <- cast(cast("2020Q1", time_period), string);', time_period_output_format="sdmx_reporting")),
    "run_fails_A": ("run", dict(script=VP_MAX + "Out_A <- DS_1 [calc x := Me_9 * 2];")),
    "run_fails_B": ("run", dict(script=VP_MAX + "Out_B <- DS_2 [keep Me_7];")),
    "sa_viral_max": ("semantic_analysis", dict(script=VP_MAX + "R <- sum(DS_1 group by Id_1);")),
    "sa_fails": ("semantic_analysis", dict(script=VP_MAX + "Out_S <- DS_1 + DS_9;")),
    "prettify_1": ("prettify", dict(script="R <- DS_1 [calc x := Me_1 * 2]; /* c1 */ S := R [filter x > 1];")),
    "prettify_2": ("prettify", dict(script="define operator f (x dataset) returns dataset is x + 1 end operator; /* other */ T <- f(DS_2);")),
    "create_ast_1": ("create_ast", dict(text="A := DS_1 * 2; B <- A + DS_2;")),
    "create_ast_bad": ("create_ast", dict(text="A := DS_1 * ;")),
    "run_no_viral_rule": ("run", dict(script="R <- DS_1 + DS_2;")),
}
STATE = {"run_viral_max": "viral_rules", "run_viral_min": "viral_rules", "run_fmt_vtl": "period_format", "run_fmt_reporting": "period_format", "run_fails_A": "error_output_name", "run_fails_B": "error_output_name",
         "sa_fails": "error_output_name", "run_no_viral_rule": "viral_rules"}


def do_call(name):
    import vtlengine
    from vtlengine.API import create_ast
    from verif import astnorm
    api, kw = CALLS[name]
    S, dps = inputs()
    try:
        if api == "run":
            return ("ok", cmp.canon_results(vtlengine.run(data_structures=S, datapoints=dps(), **kw)))
        if api == "semantic_analysis":
            return ("ok", {k: cmp.canon_result(v) for k, v in vtlengine.semantic_analysis(data_structures=S, **kw).items()})
        if api == "prettify":
            return ("ok", vtlengine.prettify(**kw))
        return ("ok", repr(astnorm.norm(create_ast(**kw))))
    except Exception as e:  # noqa
        return ("err", type(e).__name__, str(e)[:300])


def diff_kind(a, b):
    """Root-cause oriented class of a difference between the outcome alone (a) and the concurrent outcome (b)."""
    import re
    strip = lambda m: re.sub(r"Please check transformation with output Dataset\s*\w*", "", str(m))
    if a[0] == "err" and b[0] == "err":
        if a[1] == b[1] and strip(a[2:]) == strip(b[2:]):
            return "error_output_name"
        return "other_error"
    if a[0] != b[0]:
        txt = str(b[1:] if b[0] == "err" else a[1:])
        return "viral_rules" if "iral" in txt else "outcome_changes"
    txt = str(same(a, b))
    return "viral_attribute_value" if "At_1" in txt else ("period_format" if ("Id_p" in txt or "Q1" in txt or "sc" in txt) else "result_value")


def same(a, b):
    if a[0] != b[0]:
        return "outcome %s alone, %s concurrently (%s)" % (a[0], b[0], (b[1:] if b[0] == "err" else ""))
    if a[0] == "err":
        return None if a[1:] == b[1:] else "error alone %r, concurrently %r" % (a[1:], b[1:])
    if isinstance(a[1], dict) and a[1] and isinstance(next(iter(a[1].values())), dict):
        return cmp.diff_results(a[1], b[1])
    return None if a[1] == b[1] else "value differs: %r vs %r" % (str(a[1])[:80], str(b[1])[:80])


# ---------------------------------------------------------------- forced schedules
class Sched:
    def __init__(self, n, picks):
        self.cv = threading.Condition()
        self.state = ["new"] * n
        self.turn = None
        self.picks = list(picks)
        self.trace = []
        self.ids = {}
        self.deadlock = False

    def gate(self, point):
        i = self.ids.get(threading.get_ident())
        if i is None:
            return
        with self.cv:
            self.state[i] = "gate"
            self.trace.append((i, point))
            self.cv.notify_all()
            while self.turn != i:
                self.cv.wait()
            self.turn = None
            self.state[i] = "running"
            self.cv.notify_all()

    def finish(self, i):
        with self.cv:
            self.state[i] = "done"
            self.cv.notify_all()

    def drive(self, stall=45.0):
        """Release one gated thread at a time.  A thread that does not reach its next gate within 2 s (slow statement, or
        blocked on an engine lock) does not stop the schedule: another gated thread is released.  No progress at all for
        `stall` seconds = stuck: the caller inspects the thread stacks to tell an engine deadlock from a harness problem."""
        last_progress = time.time()
        seen = (0, tuple(self.state))
        lagging = set()
        while True:
            with self.cv:
                # a thread that failed to reach a gate within 0.4 s (blocked on an engine lock held by a gated thread, or inside
                # a long native call) is "lagging": it is not waited for again until it shows up at a gate
                lagging -= {i for i in lagging if self.state[i] in ("gate", "done")}
                ok = self.cv.wait_for(lambda: all(s in ("gate", "done") for i, s in enumerate(self.state) if i not in lagging), timeout=0.4)
                if not ok:
                    lagging |= {i for i, s in enumerate(self.state) if s not in ("gate", "done")}
                if all(s == "done" for s in self.state):
                    return
                now = (len(self.trace), tuple(self.state))
                if now != seen:
                    seen, last_progress = now, time.time()
                cands = [i for i, s in enumerate(self.state) if s == "gate"]
                if not cands:
                    if time.time() - last_progress > stall:
                        self.deadlock = True
                        return
                    continue
                k = self.picks.pop(0) if self.picks else 0
                self.turn = cands[k % len(cands)]
                last_progress = time.time()
                self.cv.notify_all()
            with self.cv:
                self.cv.wait_for(lambda: self.turn is None, timeout=5.0)


_WARM = set()


def forced(names, picks):
    """Run the calls `names` in threads under the gate scheduler with the given pick list. -> (results, trace, deadlock)"""
    for n in names:   # first use of an API in a process (lazy imports, parser start-up) happens untraced
        if CALLS[n][0] not in _WARM:
            _WARM.add(CALLS[n][0])
            do_call(n)
    sched = Sched(len(names), picks)
    results = [None] * len(names)

    def line_tracer(frame, event, arg):
        if event == "line":
            sched.gate("%s:L%d" % (frame.f_code.co_name, frame.f_lineno))
        return line_tracer

    def tracer(frame, event, arg):
        if event == "call" and frame.f_code.co_name in GATES and "vtlengine" in frame.f_code.co_filename:
            sched.gate(frame.f_code.co_name)
            if frame.f_code.co_name in LINE_GATES:
                return line_tracer   # statement-level gates inside the functions that write process-wide state
        return None

    def worker(i):
        sched.ids[threading.get_ident()] = i
        sys.settrace(tracer)
        try:
            sched.gate("start")
            results[i] = do_call(names[i])
        finally:
            sys.settrace(None)
            sched.finish(i)
    ths = [threading.Thread(target=worker, args=(i,), daemon=True) for i in range(len(names))]
    for t in ths:
        t.start()
    sched.drive()
    for t in ths:
        t.join(timeout=60)
    stuck = sched.deadlock or any(t.is_alive() for t in ths)
    where = []
    if stuck:
        frames = sys._current_frames()
        for t in ths:
            f = frames.get(t.ident)
            chain = []
            while f is not None and len(chain) < 12:
                chain.append("%s:%s" % (f.f_code.co_filename.split("/")[-1], f.f_code.co_name)); f = f.f_back
            where.append(chain)
        in_engine_lock = any(any("acquire" in c or "__enter__" in c for c in ch[:2]) and any("vtlengine" in c or "_cpp_parser" in c for c in ch) for ch in where)
        if not in_engine_lock:
            raise core.HarnessError("forced schedule stuck outside an engine lock (harness problem): %r" % where)
    return results, sched.trace + ([("stuck", where)] if stuck else []), stuck


def interesting(trace):
    """a switch between a write and the matching read of a shared variable by the other thread"""
    last_set = None
    for i, p in trace:
        if p in ("set_current_registry", "set_representation", "check_value"):
            if last_set is not None and last_set[0] != i:
                return True
            last_set = (i, p)
        elif p in ("get_current_registry", "transpile", "fetch_result", "execute_queries") and last_set is not None and last_set[0] != i:
            return True
    return False


def work_forced(pairs, pick_lists, alone):
    warnings.filterwarnings("ignore")
    part = core.Part()
    for names in pairs:
        for picks in pick_lists:
            res, trace, dead = forced(list(names), picks)
            case = dict(calls=list(names), picks=list(picks), trace=trace[:60])
            nt = interesting(trace)
            part.case(core.fingerprint([names, picks]), nt, sample=dict(calls=list(names), picks=list(picks), gates=len(trace)) if nt and len(part.samples) < 2 else None, labels=["forced", "threads=%d" % len(names)])
            if dead:
                part.fail("deadlock_or_hang:%s" % "+".join(sorted(set(names))), case, "threads did not finish under the forced schedule")
                continue
            for n, r in zip(names, res):
                d = same(alone[n], r) if r is not None else "no result"
                if d:
                    part.fail("forced:%s" % diff_kind(alone[n], r), dict(case, call=n), "%s under a forced interleaving with %s: %s" % (n, [m for m in names if m != n], d))
    return part


def work_forced_generated(seed, n, alone):
    warnings.filterwarnings("ignore")
    import hypothesis
    from hypothesis import given, settings, HealthCheck, strategies as st
    part = core.Part()
    names = sorted(CALLS)

    @settings(max_examples=n, database=None, deadline=None, suppress_health_check=list(HealthCheck), phases=[hypothesis.Phase.generate])
    @hypothesis.seed(seed)
    @given(st.lists(st.sampled_from(names), min_size=2, max_size=3), st.lists(st.integers(0, 2), min_size=0, max_size=40))
    def prop(ns, picks):
        sub = work_forced([tuple(ns)], [picks], alone)
        part.merge(sub)
    prop()
    return part


def work_stress(seed, iters, alone):
    warnings.filterwarnings("ignore")
    import random
    part = core.Part()
    rng = random.Random(seed)
    names = sorted(CALLS)
    old = sys.getswitchinterval()
    sys.setswitchinterval(1e-6)
    try:
        for it in range(iters):
            batch = [rng.choice(names) for _ in range(8)]
            out = [None] * 8
            def w(i):
                out[i] = do_call(batch[i])
            ths = [threading.Thread(target=w, args=(i,), daemon=True) for i in range(8)]
            for t in ths: t.start()
            for t in ths: t.join(timeout=120)
            part.case("stress:%d:%d" % (seed, it), len(set(batch)) > 1, labels=["stress"])
            if any(t.is_alive() for t in ths):
                part.fail("stress:hang", dict(batch=batch), "threads still alive after 120 s"); break
            for n, r in zip(batch, out):
                d = same(alone[n], r) if r is not None else "no result"
                if d:
                    part.fail("stress:%s" % diff_kind(alone[n], r), dict(batch=batch, call=n), "%s in a batch of 8 concurrent calls: %s" % (n, d))
    finally:
        sys.setswitchinterval(old)
    return part


def _dispatch(fname, args):
    return globals()[fname](*args)


def run(ctx):
    warnings.filterwarnings("ignore")
    ctx.rule = ("cases: (set of 2-3 API calls, schedule); forced schedules = Hypothesis pick lists consumed by a gate scheduler at 13 engine functions and at every statement of Interpreter.visit_Start / TimePeriodRepresentation.check_value (all pick lists of length <=4 over {0,1} for 6 designed pairs are enumerated, "
                "others sampled), stress = batches of 8 random calls with a 1 microsecond switch interval; oracle = the call's outcome when executed alone; non-trivial = schedule with a thread switch between a write of shared "
                "state (registry / period representation) and a dependent step of another thread (stress: batch with >=2 different calls)")
    alone = {n: do_call(n) for n in sorted(CALLS)}
    for n, r in alone.items():
        if r[0] == "err" and n not in ("run_fails_A", "run_fails_B", "sa_fails", "create_ast_bad", "run_no_viral_rule"):
            raise core.HarnessError("reference call %s fails alone: %r" % (n, r))
    pairs = [("run_viral_max", "run_viral_min"), ("run_fmt_vtl", "run_fmt_reporting"), ("run_cast_vtl", "run_cast_reporting"), ("run_fails_A", "run_fails_B"), ("run_viral_max", "prettify_1"), ("sa_viral_max", "run_viral_min"), ("create_ast_1", "prettify_2")]
    # every schedule with one context switch and back: thread a runs k gates, thread b runs to completion, a resumes (both roles), plus short alternations
    # (k ranges over all gate counts of the call: measured by running it alone under the scheduler; quick = 24 values of k per role, rotated by the seed)
    jobs = []
    for a, b in pairs:
        lists = [list(p) for L in ((2, 4) if ctx.quick else range(1, 7)) for p in itertools.product((0, 1), repeat=L)]
        for first, role in ((a, 0), (b, 1)):
            g = len(forced([first], [])[1])
            ks = list(range(0, g + 1))
            if ctx.quick and len(ks) > 24:
                step = len(ks) / 24.0
                ks = sorted({ks[int((i * step + ctx.seed) % len(ks))] for i in range(24)})
            lists += [[role] * k + [1 - role] * 400 for k in ks]
        for c in range(0, len(lists), 6):
            jobs.append(("work_forced", ([(a, b)], lists[c:c + 6], alone)))
    jobs += [("work_forced_generated", (ctx.seed * 1009 + k, 25 if ctx.quick else 300, alone)) for k in range(5)]
    jobs += [("work_stress", (ctx.seed * 1009 + k, 15 if ctx.quick else 100, alone)) for k in range(5)]
    ctx.merge(core.pmap("checks.c17", "_dispatch", jobs, procs=16))
    ctx.assumptions = ["the scheduler owns the interleaving only at Python function boundaries of 13 engine functions; bytecode-level and native (DuckDB / pyarrow) interleavings are not controlled",
                       "the native parser's use-after-free is modelled by the parser stand-in (a tree of an earlier parse raises when touched), not executed"]


def replay(ctx, path):
    import json
    warnings.filterwarnings("ignore")
    c = json.load(open(path))["case"]
    alone = {n: do_call(n) for n in sorted(CALLS)}
    if "picks" in c:
        p = work_forced([tuple(c["calls"])], [c["picks"]], alone)
    else:
        p = work_stress(1, 10, alone)
    print("replay failures:", {k: v[2] for k, v in p.failures.items()})
    return 1 if p.failures else 0
