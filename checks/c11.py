"""C11 — semantic type rules follow the documented implicit-cast table (EXHAUSTIVE over type pairs).

Oracle: the implicit-cast table of docs/data_types.rst transcribed as data (TABLE below, with the doc's own rows).
Part 1 (exhaustive, direct): all 9x9 operand type pairs (and 9 unary types) x every (type_to_check, return_type) declared by an
operator class of the registries: accept <=> a common type admitted by the operator exists in the table; check_* agrees with *_promotion;
documented result type; order independence for commutative operators.
Part 2 (exhaustive, through scripts): the same pairs through semantic_analysis() for representative operators at scalar,
component and dataset level: accepted exactly when Part 1's oracle accepts, with the predicted result type.
"""
import importlib, inspect, itertools, warnings
from verif import core, eng

LEVEL = "exploration"
TYPES = ["String", "Number", "Integer", "Boolean", "Time", "Date", "Time_Period", "Duration", "Null"]
# docs/data_types.rst "Implicit Casting (Automatic)" table: row = from, set = types it is implicitly cast to.
TABLE = {
    "String": {"String"}, "Number": {"Number", "Integer"}, "Integer": {"Number", "Integer"}, "Boolean": {"String", "Boolean"},
    "Time": {"Time"}, "Date": {"Time", "Date"}, "Time_Period": {"Time", "Time_Period"}, "Duration": {"Duration"},
    "Null": set(TYPES),  # "Null to any type: Null is compatible with every type"
}
SUBTYPE = {"Integer": "Number", "Date": "Time", "Time_Period": "Time"}  # documented type hierarchy
COMMUTATIVE = {"+", "*", "=", "<>", "and", "or", "xor"}


def admitted(c, ttc):
    return ttc is None or c == ttc or SUBTYPE.get(c) == ttc


def doc_accepts(l, r, ttc):
    common = TABLE[l] & TABLE[r]
    if ttc is not None:
        return any(admitted(c, ttc) for c in common)
    return l in TABLE[r] or r in TABLE[l] or bool(common)


def doc_join(l, r):
    """Documented common type of two types (None when the table gives none / several)."""
    if l == r:
        return l
    if l == "Null":
        return r
    if r == "Null":
        return l
    if {l, r} == {"Integer", "Number"}:
        return "Number"
    if r in TABLE[l] and l not in TABLE[r]:
        return r
    if l in TABLE[r] and r not in TABLE[l]:
        return l
    common = (TABLE[l] & TABLE[r]) - {"Null"}
    return next(iter(common)) if len(common) == 1 else None


def engine_types():
    import vtlengine.DataTypes as DT
    m = {"String": DT.String, "Number": DT.Number, "Integer": DT.Integer, "Boolean": DT.Boolean, "Time": DT.TimeInterval, "Date": DT.Date,
         "Time_Period": DT.TimePeriod, "Duration": DT.Duration, "Null": DT.Null}
    return m, {v: k for k, v in m.items()}


def operator_classes():
    """Every Binary / Unary operator subclass of the registries with its declared type_to_check / return_type."""
    import vtlengine.Operators as Op
    out = []
    for modname in ["Numeric", "String", "Boolean", "Comparison", "Conditional", "Time", "General", "Set", "Aggregation", "Analytic", "Validation", "CastOperator", "Clause", "Join", "HROperators", "RoleSetter", "Assignment"]:
        try:
            mod = importlib.import_module("vtlengine.Operators." + modname)
        except Exception:
            continue
        for name, cls in inspect.getmembers(mod, inspect.isclass):
            if cls.__module__ != mod.__name__:
                continue
            arity = 2 if issubclass(cls, Op.Binary) else 1 if issubclass(cls, Op.Unary) else 0
            if arity and getattr(cls, "op", None):
                out.append((modname, name, cls.op, arity, getattr(cls, "type_to_check", None), getattr(cls, "return_type", None)))
    return out


def part1(part):
    import vtlengine.DataTypes as DT
    from vtlengine.Exceptions import SemanticError
    T, R = engine_types()
    ops = operator_classes()
    combos2 = sorted({(R.get(t), R.get(rt)) for _, _, _, a, t, rt in ops if a == 2}, key=repr)
    combos1 = sorted({(R.get(t), R.get(rt)) for _, _, _, a, t, rt in ops if a == 1}, key=repr)
    comm = {(R.get(t), R.get(rt)) for _, _, op, a, t, rt in ops if a == 2 and op in COMMUTATIVE}
    for ttc, rt in combos2:
        for l, r in itertools.product(TYPES, TYPES):
            case = dict(left=l, right=r, type_to_check=ttc, return_type=rt)
            part.case("bin:%s:%s:%s:%s" % (l, r, ttc, rt), True, sample=case if len(part.samples) < 3 else None, labels=["binary_direct"])
            exp = doc_accepts(l, r, ttc)
            try:
                res = DT.binary_implicit_promotion(T[l], T[r], T.get(ttc), T.get(rt))
                acc, resn = True, R.get(res, str(res))
            except SemanticError:
                acc, resn = False, None
            except Exception as e:  # noqa
                part.fail("direct:raw:%s" % type(e).__name__, case, "binary_implicit_promotion raised %s: %s" % (type(e).__name__, e))
                continue
            chk = DT.check_binary_implicit_promotion(T[l], T[r], T.get(ttc), T.get(rt))
            if acc != exp:
                part.fail("direct:accept:%s:%s:%s" % (l, r, ttc), case, "binary_implicit_promotion %s the pair but the documented table %s it" % ("accepts" if acc else "rejects", "accepts" if exp else "rejects"))
                continue
            if bool(chk) != acc:
                part.fail("direct:check_disagrees:%s:%s:%s" % (l, r, ttc), case, "check_binary_implicit_promotion=%r but binary_implicit_promotion %s" % (chk, "returns" if acc else "raises"))
            if not acc:
                continue
            if rt is not None:
                if resn != rt:
                    part.fail("direct:result:%s:%s:%s:%s" % (l, r, ttc, rt), case, "result type %s, operator declares %s" % (resn, rt))
            else:
                j = doc_join(l, r)
                if j is not None and admitted(j, ttc) and resn != j:
                    part.fail("direct:result:%s:%s:%s" % (l, r, ttc), case, "result type %s, documented common type %s" % (resn, j))
            if (ttc, rt) in comm:
                try:
                    rev = R.get(DT.binary_implicit_promotion(T[r], T[l], T.get(ttc), T.get(rt)))
                except SemanticError:
                    rev = "rejected"
                if rev != resn:
                    part.fail("direct:order_dependent:%s:%s:%s" % (min(l, r), max(l, r), ttc), case, "result %s for (%s,%s) but %s for (%s,%s)" % (resn, l, r, rev, r, l))
    for ttc, rt in combos1:
        for o in TYPES:
            case = dict(operand=o, type_to_check=ttc, return_type=rt)
            part.case("un:%s:%s:%s" % (o, ttc, rt), True, labels=["unary_direct"])
            exp = ttc is None or any(admitted(c, ttc) for c in TABLE[o])
            try:
                res = DT.unary_implicit_promotion(T[o], T.get(ttc), T.get(rt))
                acc, resn = True, R.get(res, str(res))
            except SemanticError:
                acc, resn = False, None
            chk = DT.check_unary_implicit_promotion(T[o], T.get(ttc), T.get(rt))
            if acc != exp:
                part.fail("direct:unary_accept:%s:%s" % (o, ttc), case, "unary_implicit_promotion %s but the documented table %s" % ("accepts" if acc else "rejects", "accepts" if exp else "rejects"))
            elif bool(chk) != acc:
                part.fail("direct:unary_check_disagrees:%s:%s" % (o, ttc), case, "check_unary_implicit_promotion=%r vs promotion %s" % (chk, acc))
            elif acc and rt is not None and resn != rt:
                part.fail("direct:unary_result:%s:%s" % (o, ttc), case, "result %s, declared %s" % (resn, rt))
    return len(combos2), len(combos1), len(ops)


BIN_OPS = [("+", "Number", None), ("-", "Number", None), ("*", "Number", None), ("/", "Number", "Number"), ("||", "String", "String"),
           ("=", None, "Boolean"), ("<>", None, "Boolean"), ("<", None, "Boolean"), (">=", None, "Boolean"), ("and", "Boolean", "Boolean"), ("or", "Boolean", "Boolean"), ("xor", "Boolean", "Boolean")]
UN_OPS = [("not", "Boolean", "Boolean", "not %s"), ("abs", "Number", None, "abs(%s)"), ("length", "String", "Integer", "length(%s)"), ("upper", "String", "String", "upper(%s)"),
          ("ln", "Number", "Number", "ln(%s)"), ("isnull", None, "Boolean", "isnull(%s)")]
VT = {"Time": "Time", "Time_Period": "Time_Period"}


def work_scripts(pairs):
    """Part 2 shard: list of (level, op index, l, r)."""
    warnings.filterwarnings("ignore")
    from vtlengine import semantic_analysis
    from vtlengine.Exceptions import VTLEngineException
    part = core.Part()
    for level, oi, l, r in pairs:
        binary = r is not None
        if binary:
            op, ttc, rt = BIN_OPS[oi]
        else:
            op, ttc, rt, tmpl = UN_OPS[oi]
        if "Null" in (l, r):
            continue  # inputs cannot be declared with type Null
        if level == "scalar":
            S = {"datasets": [], "scalars": [{"name": "sc_a", "type": l}] + ([{"name": "sc_b", "type": r}] if binary else [])}
            S = {"scalars": S["scalars"]}
            script = "r <- sc_a %s sc_b;" % op if binary else "r <- %s;" % (tmpl % "sc_a")
        elif level == "component":
            comps = [eng.comp("Id_1", "Integer", "I"), eng.comp("Me_a", l)] + ([eng.comp("Me_b", r)] if binary else [])
            S = eng.structures(eng.structure("DS_1", comps))
            script = "r <- DS_1 [calc x := Me_a %s Me_b];" % op if binary else "r <- DS_1 [calc x := %s];" % (tmpl % "Me_a")
        else:
            extra_l = [eng.comp("Id_2", "String", "I")] if level == "dataset_more_ids_left" else []
            extra_r = [eng.comp("Id_2", "String", "I")] if level == "dataset_more_ids_right" else []
            S = eng.structures(eng.structure("DS_1", [eng.comp("Id_1", "Integer", "I")] + extra_l + [eng.comp("Me_1", l)]), *([eng.structure("DS_2", [eng.comp("Id_1", "Integer", "I")] + extra_r + [eng.comp("Me_1", r)])] if binary else []))
            script = "r <- DS_1 %s DS_2;" % op if binary else "r <- %s;" % (tmpl % "DS_1")
        exp = doc_accepts(l, r, ttc) if binary else (ttc is None or any(admitted(c, ttc) for c in TABLE[l]))
        case = dict(level=level, op=op, left=l, right=r, script=script, structures=S)
        part.case("script:%s:%s:%s:%s" % (level, op, l, r), True, sample=case if len(part.samples) < 2 else None, labels=["script:" + level])
        try:
            res = semantic_analysis(script, S)
            acc = True
        except VTLEngineException as e:
            acc, err = False, e
        except Exception as e:  # noqa
            part.fail("script:raw:%s:%s:%s" % (level, op, type(e).__name__), case, "%s: %s" % (type(e).__name__, str(e)[:200]))
            continue
        if acc != exp:
            part.fail("script:accept:%s:%s:%s:%s" % (level, op, l, r), case, "semantic_analysis %s, documented table says %s" % ("accepts" if acc else "rejects (%s)" % str(err)[:120], "accept" if exp else "reject"))
            continue
        want_t = rt if rt is not None else (doc_join(l, r) if binary and doc_join(l, r) is not None and admitted(doc_join(l, r), ttc) else None)
        if acc and want_t is not None:
            rt_eff = want_t
            out = res["r"]
            if level == "scalar":
                got = out.data_type.__name__
            elif level == "component":
                got = out.components["x"].data_type.__name__
            else:
                ms = out.get_measures()
                got = ms[0].data_type.__name__ if ms else None
            names = {"TimeInterval": "Time", "TimePeriod": "Time_Period"}
            got = names.get(got, got)
            if got != rt_eff:
                part.fail("script:result:%s:%s:%s:%s" % (level, op, l, r), case, "result type %s, expected %s" % (got, rt_eff))
    return part


def run(ctx):
    ctx.rule = ("EXHAUSTIVE: every ordered pair of the 9 types (8 basic + Null) x every (type_to_check, return_type) combination declared by a Binary operator class, every type x every unary combination "
                "(direct promotion functions), and every pair of the 8 declarable types x 12 binary / 6 unary representative operators x 5 shapes (scalar, component, dataset with equal identifiers, dataset with more identifiers on the left / right operand) through semantic_analysis; "
                "every pair is a distinct non-trivial case")
    ctx.exhaustive = True
    n2, n1, nops = part1(ctx.part)
    pairs = []
    decl = [t for t in TYPES if t != "Null"]
    for level in ("scalar", "component", "dataset", "dataset_more_ids_left", "dataset_more_ids_right"):
        for oi in range(len(BIN_OPS)):
            for l, r in itertools.product(decl, decl):
                pairs.append((level, oi, l, r))
        if level.startswith("dataset_more"):
            continue
        for oi in range(len(UN_OPS)):
            for l in decl:
                pairs.append((level, oi, l, None))
    res = core.pmap("checks.c11", "work_scripts", [(pairs[k::16],) for k in range(16)], procs=16)
    ctx.merge(res)
    ctx.extra.update(binary_operator_type_combinations=n2, unary_operator_type_combinations=n1, operator_classes_introspected=nops, script_cases=len(pairs))
    ctx.assumptions = ["the operator's admitted type is the type_to_check declared by its class (introspected from the registries of the current tree); the implicit-cast table is transcribed from docs/data_types.rst",
                       "result types are asserted where the operator declares a return type or the table gives a single common type"]


def replay(ctx, path):
    import json
    case = json.load(open(path))["case"]
    run(ctx)
    key = json.load(open(path))["key"]
    print("REPRODUCED" if key in ctx.part.failures else "not reproduced")
    return 1 if key in ctx.part.failures else 0
