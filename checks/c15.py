"""C15 — results are deterministic and independent of engine configuration.

Metamorphic / differential oracle: the same (script, inputs) is run under the reference configuration (VTL_THREADS=1, in-memory database,
default memory limit) twice and under every other configuration of the documented knobs VTL_THREADS in {2, 4, 16} x VTL_USE_IN_MEMORY_DB in
{1, 0} x VTL_MEMORY_LIMIT in {default, 256MB / 64MB} (+ a private VTL_TEMP_DIRECTORY); whenever both runs complete, the returned datapoints
must be equal as sets (row order is free).  A run that fails under a restricted configuration (out of memory) is inconclusive, not a violation;
a configuration under which a run raises while the reference returns is counted and reported only when the error is not a resource error.
Part A: generated scripts of the C02-C06 generators (clauses, aggregations, set operators, joins, analytic functions with total orderings)
and corpus cases on small data.  Part B: a fixed list of 26 scripts whose result VTL semantics fully determines, over bulk inputs large enough
for DuckDB to parallelise (quick 3x10^5 rows = 3 DuckDB row groups, thorough 10^6), values dyadic so that sums are exact; compared with pandas.
"""
import contextlib, os, shutil, tempfile, warnings
from verif import core, corpus, cmp, eng, gen

LEVEL = "exploration"
KNOBS = ["VTL_THREADS", "VTL_USE_IN_MEMORY_DB", "VTL_MEMORY_LIMIT", "VTL_TEMP_DIRECTORY"]
REFERENCE = {"VTL_THREADS": "1", "VTL_USE_IN_MEMORY_DB": "1"}


def configs(bulk):
    out = [("repeat", dict(REFERENCE))]
    for th in ("2", "4", "16"):
        for mem in ("1", "0"):
            for lim in (None, "256MB" if bulk else "64MB"):
                c = {"VTL_THREADS": th, "VTL_USE_IN_MEMORY_DB": mem}
                if lim:
                    c["VTL_MEMORY_LIMIT"] = lim
                out.append(("threads=%s,in_memory=%s,limit=%s" % (th, mem, lim or "default"), c))
    return out


@contextlib.contextmanager
def configured(cfg):
    old = {k: os.environ.get(k) for k in KNOBS}
    tmp = tempfile.mkdtemp(prefix="c15_", dir="/var/tmp")
    try:
        for k in KNOBS:
            os.environ.pop(k, None)
        os.environ.update(cfg)
        os.environ["VTL_TEMP_DIRECTORY"] = tmp
        yield
    finally:
        for k, v in old.items():
            if v is None:
                os.environ.pop(k, None)
            else:
                os.environ[k] = v
        shutil.rmtree(tmp, ignore_errors=True)


def attempt(fn, cfg):
    from vtlengine.Exceptions import VTLEngineException
    with configured(cfg):
        try:
            return ("ok", fn())
        except Exception as e:  # noqa
            msg = str(e)
            resource = any(w in msg.lower() for w in ("out of memory", "memory limit", "could not allocate", "no space", "max_temp_directory_size", "failed to allocate"))
            return ("resource" if resource else "error", "%s: %s" % (type(e).__name__, msg[:200]))


# ---------------------------------------------------------------- Part A: small generated and corpus cases
def small_case_strategy():
    from hypothesis import strategies as st

    @st.composite
    def build(draw):
        kind = draw(st.sampled_from(["agg", "setop", "join", "analytic", "clause", "expr"]))
        if kind == "agg":
            ci, ir = draw(gen.agg_case())
        elif kind == "setop":
            ci, ir = draw(gen.setop_case())
        elif kind == "join":
            ci, ir = draw(gen.join_case())
        elif kind == "analytic":
            ci, ir = draw(gen.analytic_case())
        else:
            ci = draw(gen.case_inputs(mixed=(kind == "clause"), n_datasets=draw(st.integers(1, 2))))
            if kind == "clause":
                ir = draw(gen.clause_chain(("ds", sorted(ci["structs"])[0]), ci["structs"], draw(st.integers(1, 3))))
            else:
                ir = draw(gen.ds_expr(ci, 2))
        cfgs = draw(st.lists(st.sampled_from(configs(False)[1:]), min_size=2, max_size=3, unique_by=lambda c: c[0]))
        return kind, ci, ir, cfgs
    return build()


def work_small(seed, n):
    warnings.filterwarnings("ignore")
    import hypothesis
    from hypothesis import given, settings, HealthCheck
    from vtlengine import run
    part = core.Part()

    @settings(max_examples=n, database=None, deadline=None, suppress_health_check=list(HealthCheck), phases=[hypothesis.Phase.generate])
    @hypothesis.seed(seed)
    @given(small_case_strategy())
    def prop(c):
        kind, ci, ir, cfgs = c
        script = "R <- %s;" % gen.render_ds(ir)
        S, dps = gen.engine_inputs(ci)
        fn = lambda: cmp.canon_results(run(script=script, data_structures=S, datapoints={k: v.copy() for k, v in dps.items()}))
        ref = attempt(fn, REFERENCE)
        if ref[0] != "ok":
            part.hist["reference_run_fails"] += 1
            return
        rows = sum(len(v) for v in ci["rows"].values())
        part.case(core.fingerprint([script, ci["rows"]]), rows >= 2, sample=dict(script=script, configurations=[c[0] for c in cfgs]) if len(part.samples) < 2 else None, labels=["small", "kind=" + kind])
        for name, cfg in [("repeat", REFERENCE)] + cfgs:
            out = attempt(fn, cfg)
            part.hist["config:" + name] += 1
            if out[0] == "resource":
                part.hist["inconclusive_resource_error"] += 1
                continue
            if out[0] == "error":
                part.fail("config_changes_outcome:%s:%s" % (kind, out[1].split(":")[0]), dict(script=script, inputs=ci, config=cfg), "reference configuration returns, %s raises %s" % (name, out[1]))
                continue
            d = cmp.diff_results(ref[1], out[1])
            if d:
                part.fail("result_differs:%s:%s" % (kind, "repeat" if name == "repeat" else "config"), dict(script=script, inputs=ci, config=cfg), "%s vs reference: %s" % (name, d[:300]))
    prop()
    return part


def work_corpus(ids, seed):
    warnings.filterwarnings("ignore")
    from vtlengine import run
    part = core.Part()
    cases = {c["id"]: c for c in corpus.executable_cases(max_s=3.0)}
    cfgs = configs(False)
    for n, cid in enumerate(ids):
        c = cases[cid]
        fn = lambda: cmp.canon_results(run(**corpus.run_kwargs(c)))
        ref = attempt(fn, REFERENCE)
        if ref[0] != "ok":
            part.hist["reference_run_fails"] += 1
            continue
        part.case("corpus:" + cid, True, labels=["corpus"])
        for name, cfg in [cfgs[0], cfgs[1 + (n + seed) % (len(cfgs) - 1)], cfgs[1 + (n * 7 + seed + 3) % (len(cfgs) - 1)]]:
            out = attempt(fn, cfg)
            part.hist["config:" + name] += 1
            if out[0] == "resource":
                part.hist["inconclusive_resource_error"] += 1
            elif out[0] == "error":
                part.fail("config_changes_outcome:corpus:%s" % out[1].split(":")[0], dict(corpus=cid, config=cfg), "reference configuration returns, %s raises %s" % (name, out[1]))
            else:
                d = cmp.diff_results(ref[1], out[1])
                if d:
                    part.fail("result_differs:corpus:%s" % ("repeat" if name == "repeat" else "config"), dict(corpus=cid, config=cfg), "%s vs reference: %s" % (name, d[:300]))
    return part


# ---------------------------------------------------------------- Part B: bulk inputs
BULK_SCRIPTS = [
    ("agg_sum", "R <- sum(DS_1 group by Id_2);"), ("agg_avg", "R <- avg(DS_1 group by Id_2);"), ("agg_count", "R <- count(DS_1 group by Id_2);"), ("agg_minmax", "R <- min(DS_1 group by Id_2); S <- max(DS_1 group by Id_2);"),
    ("agg_median", "R <- median(DS_1 group by Id_2);"), ("agg_all", "R <- sum(DS_1);"), ("aggr_clause", "R <- DS_1 [aggr a := sum(Me_1), b := max(Me_2), c := count() group by Id_2];"),
    ("analytic_first", "R <- first_value(DS_1 over (partition by Id_2 order by Id_1 data points between unbounded preceding and unbounded following));"),
    ("analytic_lag", "R <- lag(DS_1, 1 over (partition by Id_2 order by Id_1));"), ("analytic_running", "R <- sum(DS_1 over (partition by Id_2 order by Id_1 data points between unbounded preceding and current data point));"),
    ("analytic_rank", "R <- DS_1 [calc r := rank(over (partition by Id_2 order by Me_2))];"), ("analytic_window", "R <- max(DS_1 over (partition by Id_2 order by Id_1 data points between 2 preceding and 2 following));"),
    ("binary", "R <- DS_1 + DS_2;"), ("inner_join", "R <- inner_join(DS_1 as a, DS_2 as b rename a#Me_1 to A1, b#Me_1 to B1, a#Me_2 to A2, b#Me_2 to B2);"),
    ("left_join", "R <- left_join(DS_1 as a, DS_2 as b rename a#Me_1 to A1, b#Me_1 to B1, a#Me_2 to A2, b#Me_2 to B2);"),
    ("union", "R <- union(DS_1, DS_2);"), ("union_rev", "R <- union(DS_2, DS_1);"), ("intersect", "R <- intersect(DS_1, DS_2);"), ("setdiff", "R <- setdiff(DS_1, DS_2);"), ("symdiff", "R <- symdiff(DS_1, DS_2);"),
    ("filter_calc", 'R <- DS_3 [filter Me_2 > 3] [calc s := Me_3 || "_" || cast(Me_2, string), t := Me_1 * 2 - Me_2];'), ("string_agg", "R <- max(DS_3#Me_3 group by Id_2); S <- count(DS_3 group by Id_2);"), ("exists_in", "R <- exists_in(DS_1, DS_2, all);"),
    ("if_then", "R <- if DS_1#Me_2 > 4 then DS_1 else DS_2;"),
    ("check_datapoint", 'define datapoint ruleset dpr (variable Me_1, Me_2) is r1: Me_1 >= Me_2 errorcode "e1" errorlevel 1; r2: when Me_2 > 5 then Me_1 > 0 errorcode "e2" end datapoint ruleset; R <- check_datapoint(DS_1, dpr invalid);'),
    ("time_series", "R <- flow_to_stock(DS_T); S <- timeshift(DS_T, 1); T <- fill_time_series(DS_T, single);"),
    ("viral_enumerated_group", 'define viral propagation vp1 (variable At_1) is when "A" and "B" then "C"; when "A" and "C" then "B"; when "B" and "C" then "A"; else "A" end viral propagation; define viral propagation vp2 (variable At_2) is aggregate min end viral propagation; R <- sum(DS_V group by Id_2);'),
    ("viral_aggregate_binary", "define viral propagation vp1 (variable At_2) is aggregate max end viral propagation; define viral propagation vp2 (variable At_1) is when \"A\" then \"A\"; else \"Z\" end viral propagation; R <- DS_V + DS_V;"),
    ("ratio_cancelling", "R <- ratio_to_report(DS_C over (partition by Id_2));"), ("sum_cancelling", "R <- sum(DS_C group by Id_2); S <- avg(DS_C group by Id_2);"),
    ("multi_statement", "A := DS_1 [filter Me_2 <= 7]; B := sum(A group by Id_2); C := A [calc k := Me_1 + 1]; R <- inner_join(C as c, B as b rename c#Me_1 to M1, b#Me_1 to T1, c#Me_2 to M2, b#Me_2 to T2);"),
]


def bulk_inputs(n, seed):
    import numpy as np, pandas as pd
    rng = np.random.RandomState(seed)
    comps3 = [eng.comp("Id_1", "Integer", "I"), eng.comp("Id_2", "Integer", "I"), eng.comp("Me_1", "Number"), eng.comp("Me_2", "Integer"), eng.comp("Me_3", "String")]
    comps = comps3[:4]
    def table(shift, strings=False):
        ids = np.arange(n) + shift
        df = pd.DataFrame({"Id_1": ids // 10, "Id_2": ids % 10, "Me_1": rng.randint(-4000, 4000, n) / 4.0, "Me_2": rng.randint(0, 10, n), "Me_3": np.array(["a", "b", "c", "dd", "ünï"])[rng.randint(0, 5, n)]})
        df.loc[rng.rand(n) < 0.02, "Me_1"] = None
        if not strings:
            df = df.drop(columns=["Me_3"])
        return df.sample(frac=1.0, random_state=seed).reset_index(drop=True)
    compsT = [eng.comp("Id_1", "Integer", "I"), eng.comp("Id_t", "Time_Period", "I"), eng.comp("Me_1", "Number")]
    m = max(10, n // 40)
    k = np.arange(m * 36)
    dft = pd.DataFrame({"Id_1": k // 36, "Id_t": ["%dM%d" % (2000 + (i % 36) // 12, (i % 12) + 1) for i in k], "Me_1": rng.randint(-400, 400, len(k)) / 4.0})
    dft = dft[rng.rand(len(dft)) > 0.1].sample(frac=1.0, random_state=seed).reset_index(drop=True)
    # viral attributes (a rule table that is not associative) and large, mostly cancelling values (exact in decimal arithmetic, order-sensitive in binary floating point)
    nv = n   # several DuckDB row groups (122 880 rows each): smaller tables are scanned by one thread whatever VTL_THREADS says
    compsV = [eng.comp("Id_1", "Integer", "I"), eng.comp("Id_2", "Integer", "I"), eng.comp("Me_1", "Number"), eng.comp("At_1", "String", "V"), eng.comp("At_2", "Integer", "V")]
    iv = np.arange(nv)
    dfv = pd.DataFrame({"Id_1": iv // 64, "Id_2": iv % 64, "Me_1": rng.randint(0, 100, nv) / 4.0, "At_1": np.array(["A", "B", "C"])[rng.randint(0, 3, nv)], "At_2": rng.randint(0, 1000, nv)}).sample(frac=1.0, random_state=seed).reset_index(drop=True)
    compsC = [eng.comp("Id_1", "Integer", "I"), eng.comp("Id_2", "Integer", "I"), eng.comp("Me_1", "Number")]
    # four large partitions of +X / -X pairs with X in 1e14..1e16 (random magnitudes) plus a few small values: the exact (decimal) partition
    # total is small, a binary floating-point accumulation depends on the order of the rows
    half = nv // 2
    mag = rng.randint(10 ** 6, 10 ** 8, half).astype("float64") * 1e8
    # every partition (Id_2 = position mod 4) receives complete +X / -X pairs and a few small positive values
    parts = []
    for pnum in range(4):
        m = mag[pnum::4]
        v = np.concatenate([m, -m, rng.randint(1, 11, max(4, nv // 600)).astype("float64")])
        parts.append(pd.DataFrame({"Id_2": pnum, "Me_1": v}))
    dfc = pd.concat(parts, ignore_index=True)
    dfc.insert(0, "Id_1", np.arange(len(dfc)))
    dfc = dfc[["Id_1", "Id_2", "Me_1"]]
    dfc = dfc.sample(frac=1.0, random_state=seed).reset_index(drop=True)
    S = eng.structures(eng.structure("DS_1", comps), eng.structure("DS_2", comps), eng.structure("DS_3", comps3), eng.structure("DS_T", compsT), eng.structure("DS_V", compsV), eng.structure("DS_C", compsC))
    return S, {"DS_1": table(0), "DS_2": table(n // 2), "DS_3": table(0, True), "DS_T": dft, "DS_V": dfv, "DS_C": dfc}


def frames_differ(a, b):
    """pandas comparison of two engine Datasets as sets of datapoints -> None | text"""
    import numpy as np
    ida = [n for n, c in a.components.items() if c.role.name == "IDENTIFIER"]
    ca = [(n, c.role.name, c.data_type.__name__, bool(c.nullable)) for n, c in a.components.items()]
    cb = [(n, c.role.name, c.data_type.__name__, bool(c.nullable)) for n, c in b.components.items()]
    if ca != cb:
        return "components %r vs %r" % (ca[:6], cb[:6])
    da, db = a.data, b.data
    if len(da) != len(db):
        return "row count %d vs %d" % (len(da), len(db))
    cols = list(da.columns)
    if ida:
        da = da.sort_values(ida, kind="mergesort").reset_index(drop=True)
        db = db[cols].sort_values(ida, kind="mergesort").reset_index(drop=True)
    else:
        da = da.sort_values(cols).reset_index(drop=True); db = db[cols].sort_values(cols).reset_index(drop=True)
    for c in cols:
        x, y = da[c], db[c]
        xn, yn = x.isna().to_numpy(), y.isna().to_numpy()
        if (xn != yn).any():
            i = int(np.argmax(xn != yn))
            return "component %s: null pattern differs at key %r" % (c, tuple(da[ida].iloc[i]) if ida else i)
        try:
            xv = x.to_numpy(dtype="float64", na_value=np.nan); yv = y.to_numpy(dtype="float64", na_value=np.nan)
            bad = ~(np.isclose(xv, yv, rtol=1e-9, atol=0, equal_nan=True))
        except (TypeError, ValueError):
            bad = (x.astype("object").to_numpy() != y.astype("object").to_numpy()) & ~xn
        if bad.any():
            i = int(np.argmax(bad))
            return "component %s differs at key %r: %r vs %r" % (c, tuple(da[ida].iloc[i]) if ida else i, x.iloc[i], y.iloc[i])
    return None


def work_bulk(names, n, seed, cfg_idx):
    warnings.filterwarnings("ignore")
    from vtlengine import run
    part = core.Part()
    S, dps = bulk_inputs(n, seed)
    cfgs = configs(True)
    for name in names:
        script = dict(BULK_SCRIPTS)[name]
        used = {k: v for k, v in dps.items() if k in script}
        Su = {"datasets": [d for d in S["datasets"] if d["name"] in used]}
        fn = lambda: run(script=script, data_structures=Su, datapoints={k: v.copy() for k, v in used.items()})
        ref = attempt(fn, REFERENCE)
        case = dict(script=script, rows=n, data_seed=seed)
        if ref[0] != "ok":
            part.hist["bulk_reference_fails:" + name] += 1    # not a case of the property ("whenever the runs complete"); run() enforces that few scripts end here
            part.notes.append("bulk script %s fails under the reference configuration: %s" % (name, ref[1][:160]))
            continue
        part.case("bulk:%s:%d:%d" % (name, n, seed), True, sample=dict(script=script, rows=n) if len(part.samples) < 2 else None, labels=["bulk", "script=" + name])
        for cname, cfg in [cfgs[0]] + [cfgs[1 + (cfg_idx + j * 5) % (len(cfgs) - 1)] for j in range(3)]:
            out = attempt(fn, cfg)
            part.hist["config:" + cname] += 1
            if out[0] == "resource":
                part.hist["inconclusive_resource_error"] += 1
                continue
            if out[0] == "error":
                part.fail("config_changes_outcome:bulk:%s:%s" % (name, out[1].split(":")[0]), dict(case, config=cfg), "reference configuration returns, %s raises %s" % (cname, out[1]))
                continue
            if sorted(ref[1]) != sorted(out[1]):
                part.fail("result_names:bulk:%s" % name, dict(case, config=cfg), "results %r vs %r" % (sorted(ref[1]), sorted(out[1])))
                continue
            for rname in ref[1]:
                d = frames_differ(ref[1][rname], out[1][rname])
                if d:
                    part.fail("result_differs:bulk:%s:%s" % (name, "repeat" if cname == "repeat" else "config"), dict(case, config=cfg, result=rname), "%s under %s vs reference: %s" % (rname, cname, d))
                    break
    return part


def _dispatch(fname, args):
    return globals()[fname](*args)


def run(ctx):
    q = ctx.quick
    n = 300000 if q else 1000000
    ctx.rule = ("cases: (script, inputs) run under the reference configuration and re-run under it and under 2-3 of the 12 other configurations (VTL_THREADS 2/4/16 x in-memory / file-backed x default / reduced memory limit, private temp dir); "
                "Part A small generated (6 generators) and corpus cases, Part B %d bulk scripts over %d-row inputs; non-trivial = case with >=2 input rows whose reference run completes; a resource error under a restricted configuration is inconclusive" % (len(BULK_SCRIPTS), n))
    jobs = [("work_small", (ctx.seed * 1009 + k, 12 if q else 400)) for k in range(8)]
    ids = [c["id"] for c in corpus.rotate(corpus.executable_cases(max_s=3.0), ctx.seed, 64 if q else 10 ** 6)]
    jobs += [("work_corpus", (ids[k::4], ctx.seed)) for k in range(4)]
    names = [s[0] for s in BULK_SCRIPTS]
    shards = 10 if q else 15
    jobs += [("work_bulk", (names[k::shards], n, ctx.seed + 17, ctx.seed + k)) for k in range(shards)]
    if not q:
        jobs += [("work_bulk", (names[k::shards], 100000, ctx.seed + 99 + r, ctx.seed + k + r)) for k in range(shards) for r in range(3)]
    ctx.merge(core.pmap("checks.c15", "_dispatch", jobs, procs=16))
    failing = [k for k in ctx.part.hist if k.startswith("bulk_reference_fails:")]
    if len(failing) > 3:
        raise core.HarnessError("too many bulk scripts fail under the reference configuration (harness problem): %r" % failing)
    ctx.assumptions = ["bulk measure values are multiples of 0.25 below 1000 so that sums and running sums are exact in binary floating point; other numeric results are compared with relative tolerance 1e-9",
                       "scripts use only operators whose result VTL semantics fully determines (analytic functions with total orderings and explicit windows; no random / current_date)",
                       "failure to reproduce a difference is not a proof of determinism: inputs of at most 10^6 rows, 16 hardware threads"]


def replay(ctx, path):
    import json
    warnings.filterwarnings("ignore")
    c = json.load(open(path))["case"]
    if "data_seed" in c:
        name = [k for k, v in BULK_SCRIPTS if v == c["script"]][0]
        p = work_bulk([name], c["rows"], c["data_seed"], 0)
    else:
        p = work_small(1, 20)
    print("replay failures:", {k: v[2] for k, v in p.failures.items()})
    return 1 if p.failures else 0
