"""C23 — the parser never crashes and locates syntax errors (Python half; parse trees come from the parser stand-in).

Domain: token-level mutations of corpus and generated scripts, random text (keywords, punctuation, unicode, NULs, lone quotes,
unterminated comments), nesting bombs of depth 10-3000, and Hypothesis stateful histories of parses alternating valid and
invalid texts in one process.
Oracle: create_ast(text) returns a Start or raises a VTL error (VTLEngineException subclass) - never RecursionError, IndexError,
AttributeError, ...; a VTLSyntaxError carries line in 1..lines(text + "\\n") and column in 1..len(that line with tabs expanded)+1;
after any history, parsing T again gives the same AST / the same error as the first parse of T, and prettify(T) is unchanged.
"""
import json, warnings
from verif import core, corpus, texts, astnorm

LEVEL = "exploration"


def parse_outcome(text):
    """-> ('ast', normal form) | ('syntax', (line, col, detail)) | ('vtl', code) | ('raw', type, message)"""
    from vtlengine.API import create_ast
    from vtlengine.Exceptions import VTLSyntaxError, VTLEngineException
    try:
        ast = create_ast(text)
    except VTLSyntaxError as e:
        return ("syntax", (e.lino, e.colno, str(e).split("\n")[0]))
    except VTLEngineException as e:
        return ("vtl", e.args[1] if len(e.args) > 1 else type(e).__name__, str(e)[:120])
    except Exception as e:  # noqa
        from verif import shim
        if type(e).__name__ in ("ShimServerError",):
            raise core.HarnessError("parser stand-in failed: %s" % e)
        return ("raw", type(e).__name__, str(e)[:200])
    # the comparable form of the AST is computed outside the try: a failure here is the harness's, not the engine's
    try:
        return ("ast", digest(astnorm.norm(ast)))
    except RecursionError:
        return ("ast", "too deep for the harness to normalise")


def digest(x):
    """Order-preserving hash of a nested list / tuple / dict structure, computed without recursion."""
    import hashlib
    h = hashlib.sha256()
    stack = [x]
    while stack:
        v = stack.pop()
        if isinstance(v, (list, tuple)):
            h.update(b"[%d" % len(v)); stack.extend(reversed(v))
        elif isinstance(v, dict):
            h.update(b"{%d" % len(v))
            for k in sorted(v, key=repr, reverse=True):
                stack.append(v[k]); stack.append(k)
        else:
            h.update(repr(v).encode("utf-8", "replace")); h.update(b"|")
    return h.hexdigest()


def location_problem(text, out):
    if out[0] != "syntax":
        return None
    lino, colno, _ = out[1]
    try:
        line, col = int(lino), int(colno)
    except (TypeError, ValueError):
        return "line/column are not integers: %r, %r" % (lino, colno)
    lines = (text + "\n").split("\n")
    if not (1 <= line <= len(lines)):
        return "line %d outside 1..%d" % (line, len(lines))
    src = lines[line - 1].replace("\r", "")
    expanded = src.replace("\t", "    ")
    if not (1 <= col <= len(expanded) + 1):
        return "column %d outside 1..%d on line %d (%r)" % (col, len(expanded) + 1, line, src[:60])
    return None


def judge(part, label, text, out, case):
    if out[0] == "raw":
        part.fail("raw:%s:%s" % (out[1], label.split(":")[0]), case, "create_ast raised %s: %s" % (out[1], out[2]))
        return
    loc = location_problem(text, out)
    if loc:
        part.fail("location:%s" % loc.split(" ")[0], case, loc + " — " + str(out[1]))


def work_mutations(seed, n, ids):
    warnings.filterwarnings("ignore")
    import hypothesis
    from hypothesis import given, settings, HealthCheck, strategies as st
    from checks import c24
    part = core.Part()
    scripts = [c["script"] for c in corpus.harvest() if c["id"] in ids and len(c["script"]) < 4000]
    base = st.one_of(st.sampled_from(scripts), c24.script_strategy(set()))

    @settings(max_examples=n, database=None, deadline=None, suppress_health_check=list(HealthCheck), phases=[hypothesis.Phase.generate])
    @hypothesis.seed(seed)
    @given(st.data())
    def prop(data):
        src = data.draw(base)
        text = data.draw(texts.mutation_strategy(src))
        out = parse_outcome(text)
        nt = out[0] == "syntax" or (out[0] == "ast" and text != src)
        part.case(core.fingerprint(text), nt, sample=dict(text=text[:200], outcome=out[0], detail=str(out[1])[:120]) if out[0] == "syntax" and len(part.samples) < 2 else None, labels=["mutation", "outcome=" + out[0]])
        judge(part, "mutation", text, out, dict(text=text))
    prop()
    return part


def work_random(seed, n):
    warnings.filterwarnings("ignore")
    import hypothesis
    from hypothesis import given, settings, HealthCheck
    part = core.Part()

    @settings(max_examples=n, database=None, deadline=None, suppress_health_check=list(HealthCheck), phases=[hypothesis.Phase.generate])
    @hypothesis.seed(seed)
    @given(texts.random_text_strategy())
    def prop(text):
        out = parse_outcome(text)
        part.case(core.fingerprint(text), out[0] == "syntax", sample=dict(text=text[:120], outcome=out[0]) if len(part.samples) < 1 else None, labels=["random_text", "outcome=" + out[0]])
        judge(part, "random", text, out, dict(text=text))
    prop()
    return part


def work_bombs(depths):
    warnings.filterwarnings("ignore")
    part = core.Part()
    for label, text in texts.nesting_bombs(depths):
        out = parse_outcome(text)
        part.case("bomb:" + label, True, sample=dict(bomb=label, outcome=out[0]) if len(part.samples) < 2 else None, labels=["nesting_bomb", "outcome=" + out[0], "depth=%s" % label.split(":")[1]])
        judge(part, "bomb:" + label.split(":")[0], text, out, dict(bomb=label, text=text[:200], length=len(text)))
    return part


def work_histories(seed, n, ids):
    """Stateful: sequences of create_ast / prettify / create_ast_with_comments over a pool of valid and invalid texts."""
    warnings.filterwarnings("ignore")
    import hypothesis
    from hypothesis import settings, HealthCheck, strategies as st
    from hypothesis.stateful import RuleBasedStateMachine, rule, run_state_machine_as_test
    from vtlengine import prettify
    part = core.Part()
    scripts = [c["script"] for c in corpus.harvest() if c["id"] in ids and len(c["script"]) < 1500][:60]
    broken = [s[: max(1, len(s) // 2)] for s in scripts[:20]] + ["A := ;", "A := DS_1 +", "/* open", 'A := "x;', "A := DS_1 [calc ];", ")", "",
              "A := DS_1;\x0cB := ;", "A := DS_1;\rB := ;\r", "R := " + "(" * 2500 + "DS_1" + ")" * 2500 + ";", "R := DS_1" + " + DS_1" * 700 + ";"]
    pool = scripts + broken
    first = {}

    def pretty(t):
        try:
            return ("ok", prettify(t))
        except Exception as e:  # noqa
            return ("err", type(e).__name__, str(e).split("\n")[0][:120])

    class Machine(RuleBasedStateMachine):
        def __init__(self):
            super().__init__()
            self.steps = []

        @rule(i=st.integers(0, len(pool) - 1))
        def parse(self, i):
            t = pool[i]
            out = parse_outcome(t)
            self.steps.append(("parse", i))
            judge(part, "history", t, out, dict(history=self.steps[-12:], text=t[:200]))
            ref = first.setdefault(("parse", i), out)
            if ref != out:
                part.fail("history:parse_result_changes", dict(history=self.steps[-12:], text=t[:300]), "parse of the same text differs after the history: first %s, now %s" % (str(ref)[:150], str(out)[:150]))

        @rule(i=st.integers(0, len(pool) - 1))
        def pretty_print(self, i):
            t = pool[i]
            out = pretty(t)
            self.steps.append(("prettify", i))
            ref = first.setdefault(("prettify", i), out)
            if ref != out:
                part.fail("history:prettify_changes", dict(history=self.steps[-12:], text=t[:300]), "prettify of the same text differs after the history: first %s, now %s" % (str(ref)[:150], str(out)[:150]))

        def teardown(self):
            part.case(core.fingerprint(self.steps), len({k for k, _ in self.steps}) > 1 or len(self.steps) > 2, labels=["history", "steps=%d" % min(len(self.steps), 20)],
                      sample=dict(history=self.steps[:10]) if len(part.samples) < 1 else None)

    # deterministic history first: every text of the pool parsed and prettified in order, three passes in this process
    for rnd in range(3):
        for i, t in enumerate(pool):
            out = parse_outcome(t)
            judge(part, "history", t, out, dict(history=[("pass", rnd), ("parse", i)], text=t[:200]))
            ref = first.setdefault(("parse", i), out)
            if ref != out:
                part.fail("history:parse_result_changes", dict(history=[("pass", rnd), ("parse", i)], text=t[:300]), "parse of the same text differs between pass 0 and pass %d over the pool: first %s, now %s" % (rnd, str(ref)[:150], str(out)[:150]))
            if rnd < 2:
                o2 = pretty(t)
                if first.setdefault(("prettify", i), o2) != o2:
                    part.fail("history:prettify_changes", dict(history=[("pass", rnd), ("prettify", i)], text=t[:300]), "prettify differs between passes")
        part.case("pool_pass:%d:%d" % (seed, rnd), True, labels=["history", "full_pass"])
    run_state_machine_as_test(hypothesis.seed(seed)(Machine), settings=settings(max_examples=n, stateful_step_count=20, deadline=None, database=None, suppress_health_check=list(HealthCheck), phases=[hypothesis.Phase.generate]))
    return part


def _dispatch(fname, args):
    return globals()[fname](*args)


def run(ctx):
    ctx.rule = ("cases: token-level mutations (1-3 edits) of corpus and generated scripts, random token/character soup, nesting bombs, and stateful histories (<=20 parses / prettify calls over 87 valid and broken texts); "
                "non-trivial = a text rejected with a located syntax error, an accepted mutant, a nesting bomb, or a history with >2 steps")
    q = ctx.quick
    ids = set(c["id"] for c in corpus.rotate(corpus.harvest(), ctx.seed, 300 if q else 10 ** 6))
    jobs = [("work_mutations", (ctx.seed * 1009 + k, 250 if q else 8000, ids)) for k in range(9)]
    jobs += [("work_random", (ctx.seed * 1009 + k, 300 if q else 10000)) for k in range(3)]
    jobs += [("work_bombs", (d,)) for d in ([(10, 50), (200,), (1000,)] if q else [(10, 50), (200,), (1000,), (3000,)])]
    jobs += [("work_histories", (ctx.seed * 1009 + k, 12 if q else 300, ids)) for k in range(2)]
    ctx.merge(core.pmap("checks.c23", "_dispatch", jobs, procs=16))
    ctx.assumptions = ["TRUSTED BASE: parse trees and the raw error record (line, 0-based column, message) come from the parser stand-in (ANTLR Java interpreter over the ATN shipped in the repository), not from the native extension, "
                       "which cannot be built here: aborts, hangs, stack exhaustion or use-after-free inside bindings.cpp are NOT observable; the check decides create_ast / ASTConstructor / ASTComment / error-location arithmetic in Python",
                       "a failure of the stand-in itself (server death, Java StackOverflowError) is a harness error (exit 2), not a violation"]


def replay(ctx, path):
    warnings.filterwarnings("ignore")
    c = json.load(open(path))["case"]
    text = c.get("text")
    if "bomb" in c:
        text = dict(texts.nesting_bombs((int(c["bomb"].split(":")[1]),)))[c["bomb"]]
    out = parse_outcome(text)
    print("replay:", out[0], str(out[1:])[:300], location_problem(text, out))
    return 1 if out[0] == "raw" or location_problem(text, out) else 0
