"""C07 — validation and hierarchy operators report exactly the failing datapoints.

Hypothesis-generated rulesets (1-5 rules, when-conditions, error codes / levels, named or unnamed) and data, every output mode, compared with
an independent evaluation written here (three-valued logic on plain Python values):
  check_datapoint   invalid -> exactly the (datapoint, rule) pairs whose rule is FALSE, with the input measures; all / all_measures -> every
                    (datapoint, rule) pair with its boolean outcome (null when the comparison involves a null); errorcode / errorlevel set
                    exactly where the outcome is FALSE, to the rule's declared values; a rule "when c then e" is TRUE where c is false
  check             bool_var = left op right per matching datapoint, imbalance = left - right, errorcode / errorlevel where FALSE; invalid -> FALSE rows only
  check_hierarchy   per group of the other identifiers and rule "L op R1 +- R2 ...": bool = value(L) op sum, imbalance = value(L) - sum, keyed by
                    (group, L, ruleid); invalid / all / all_measures as above
  hierarchy         computed -> value(L) = signed sum of the right-hand items per group; all -> input with computed items replaced / added
The hierarchical operators are checked in the region where every validation mode coincides: each group holds a non-null, non-zero value for
every code item a rule mentions, and no rule reads an item another rule computes (so mode and rule order cannot matter); all six modes are
exercised and must give this same result.
"""
import warnings
from verif import core, eng, cmp

LEVEL = "exploration"
OPS = {"=": lambda a, b: a == b, "<>": lambda a, b: a != b, ">": lambda a, b: a > b, ">=": lambda a, b: a >= b, "<": lambda a, b: a < b, "<=": lambda a, b: a <= b}


def cmp3(op, a, b):
    if a is None or b is None:
        return None
    return OPS[op](a, b)


def and3(a, b):
    if a is False or b is False:
        return False
    if a is None or b is None:
        return None
    return True


def or3(a, b):
    if a is True or b is True:
        return True
    if a is None or b is None:
        return None
    return False


# ---------------------------------------------------------------- check_datapoint
def dp_rule_strategy():
    from hypothesis import strategies as st
    operand = st.one_of(st.sampled_from([("c", "Me_1"), ("c", "Me_2")]), st.sampled_from([0, 1, 2.5, 3, -1]).map(lambda v: ("k", v)))
    atom = st.tuples(st.sampled_from(sorted(OPS)), st.sampled_from([("c", "Me_1"), ("c", "Me_2")]), operand).map(lambda t: ("cmp",) + t)
    expr = st.one_of(atom, atom, st.tuples(st.sampled_from(["and", "or"]), atom, atom).map(lambda t: (t[0], t[1], t[2])))
    cond = st.one_of(st.none(), st.none(), st.sampled_from(["a", "b"]).map(lambda v: ("cmp", "=", ("c", "Id_2"), ("k", v))), st.sampled_from([1, 2]).map(lambda v: ("cmp", ">=", ("c", "Id_1"), ("k", v))),
                     st.sampled_from([1, 2.5]).map(lambda v: ("cmp", ">", ("c", "Me_2"), ("k", v))))   # may be null: the rule then evaluates to null (three-valued implication as coded by the engine)
    return st.tuples(cond, expr, st.one_of(st.none(), st.sampled_from(["E1", "bad value", "x"])), st.one_of(st.none(), st.sampled_from([1, 2, 5])))


def ev(e, row):
    if e[0] == "cmp":
        val = lambda o: row[o[1]] if o[0] == "c" else o[1]
        return cmp3(e[1], val(e[2]), val(e[3]))
    a, b = ev(e[1], row), ev(e[2], row)
    return and3(a, b) if e[0] == "and" else or3(a, b)


def render_e(e):
    if e[0] == "cmp":
        r = lambda o: o[1] if o[0] == "c" else ('"%s"' % o[1] if isinstance(o[1], str) else repr(o[1]))
        return "%s %s %s" % (r(e[2]), e[1], r(e[3]))
    return "(%s) %s (%s)" % (render_e(e[1]), e[0], render_e(e[2]))


def dp_case_strategy():
    from hypothesis import strategies as st

    @st.composite
    def build(draw):
        rules = draw(st.lists(dp_rule_strategy(), min_size=1, max_size=5))
        named = draw(st.booleans())
        keys = draw(st.lists(st.tuples(st.sampled_from([1, 2, 3]), st.sampled_from(["a", "b", "c"])), min_size=1, max_size=7, unique=True))
        vals = st.sampled_from([0.0, 1.0, 2.5, 3.0, -1.0, 7.0, None])
        rows = [{"Id_1": a, "Id_2": b, "Me_1": draw(vals), "Me_2": draw(vals)} for a, b in keys]
        mode = draw(st.sampled_from(["", "invalid", "all", "all_measures"]))
        return dict(kind="dp", rules=rules, named=named, rows=rows, mode=mode)
    return build()


def dp_script(case):
    parts = []
    for i, (cond, expr, code, level) in enumerate(case["rules"], 1):
        s = ("r%d: " % i) if case["named"] else ""
        if cond:
            s += "when %s then " % render_e(cond)
        s += render_e(expr)
        if code is not None:
            s += ' errorcode "%s"' % code
        if level is not None:
            s += " errorlevel %d" % level
        parts.append(s)
    return "define datapoint ruleset dpr (variable Id_1, Id_2, Me_1, Me_2) is %s end datapoint ruleset;\nR <- check_datapoint(DS_1, dpr %s);" % ("; ".join(parts), case["mode"])


def dp_expected(case):
    out = {}
    for i, (cond, expr, code, level) in enumerate(case["rules"], 1):
        rid = ("r%d" % i) if case["named"] else str(i)
        for r in case["rows"]:
            if cond is not None:
                c = ev(cond, r)
                b = True if c is False else (ev(expr, r) if c is True else None)
                if c is None:
                    b = None
            else:
                b = ev(expr, r)
            out[(r["Id_1"], r["Id_2"], rid)] = dict(bool=b, code=code if b is False else None, level=level if b is False else None, Me_1=r["Me_1"], Me_2=r["Me_2"])
    return out


def veq(a, b):
    return cmp.values_equal(cmp.canon_value(a), cmp.canon_value(b))


def num(v):
    v = eng.norm(v)
    if isinstance(v, str):
        try:
            return float(v)
        except ValueError:
            return v
    return v


def compare_validation(exp, ds, mode, key_cols, tag, with_imbalance=False, measures=("Me_1", "Me_2")):
    """-> list of (key, what)"""
    cols, rows = eng.dataset_rows(ds)
    got = {}
    for r in rows:
        k = tuple(r[c] for c in key_cols)
        if k in got:
            return [("%s:duplicate_rows" % tag, "result holds %r twice" % (k,))]
        got[k] = r
    invalid = mode in ("", "invalid")
    want = {k: v for k, v in exp.items() if (v["bool"] is False or not invalid)}
    if set(got) != set(want):
        extra = sorted(set(got) - set(want), key=repr)[:3]; missing = sorted(set(want) - set(got), key=repr)[:3]
        return [("%s:%s:datapoints" % (tag, mode or "default"), "returned but not expected %r; expected but missing %r" % (extra, missing))]
    for k, v in want.items():
        g = got[k]
        if not invalid:
            if "bool_var" not in g or not veq(g["bool_var"], v["bool"]):
                return [("%s:%s:bool_var" % (tag, mode), "%r: bool_var %r, rule evaluates to %r" % (k, g.get("bool_var"), v["bool"]))]
        if not veq(g.get("errorcode"), v["code"]):
            return [("%s:%s:errorcode" % (tag, mode or "default"), "%r: errorcode %r, expected %r (outcome %r)" % (k, g.get("errorcode"), v["code"], v["bool"]))]
        if not veq(num(g.get("errorlevel")), v["level"]):   # numeric value; whether the column holds numbers or numeric strings is C10's matter
            return [("%s:%s:errorlevel" % (tag, mode or "default"), "%r: errorlevel %r, expected %r (outcome %r)" % (k, g.get("errorlevel"), v["level"], v["bool"]))]
        if with_imbalance and not veq(g.get("imbalance"), v["imbalance"]):
            return [("%s:%s:imbalance" % (tag, mode or "default"), "%r: imbalance %r, left minus right is %r" % (k, g.get("imbalance"), v["imbalance"]))]
        if mode in ("", "invalid", "all_measures"):
            for m in measures:
                if m in v and (m not in g or not veq(g[m], v[m])):
                    return [("%s:%s:measure" % (tag, mode or "default"), "%r: measure %s is %r, input value %r" % (k, m, g.get(m), v[m]))]
    return []


# ---------------------------------------------------------------- check
def check_case_strategy():
    from hypothesis import strategies as st

    @st.composite
    def build(draw):
        vals = st.sampled_from([0.0, 1.0, 2.5, 3.0, -1.0, 7.0, None])
        keys = st.lists(st.tuples(st.sampled_from([1, 2, 3]), st.sampled_from(["a", "b"])), min_size=1, max_size=5, unique=True)
        d1 = [{"Id_1": a, "Id_2": b, "Me_1": draw(vals)} for a, b in draw(keys)]
        d2 = [{"Id_1": a, "Id_2": b, "Me_1": draw(vals)} for a, b in draw(keys)]
        return dict(kind="check", op=draw(st.sampled_from(sorted(OPS))), d1=d1, d2=d2, code=draw(st.one_of(st.none(), st.sampled_from(["E", "some error"]))), level=draw(st.one_of(st.none(), st.sampled_from([1, 4]))),
                    imbalance=draw(st.booleans()), mode=draw(st.sampled_from(["", "invalid", "all"])), scalar=draw(st.one_of(st.none(), st.none(), st.sampled_from([0, 2.5]))))
    return build()


def check_script(case):
    right = "DS_2" if case["scalar"] is None else repr(case["scalar"])
    s = "R <- check(DS_1 %s %s" % (case["op"], right)
    if case["code"] is not None:
        s += ' errorcode "%s"' % case["code"]
    if case["level"] is not None:
        s += " errorlevel %d" % case["level"]
    if case["imbalance"]:
        s += " imbalance DS_1 - %s" % right
    return s + " %s);" % case["mode"]


def check_expected(case):
    d2 = {(r["Id_1"], r["Id_2"]): r["Me_1"] for r in case["d2"]}
    out = {}
    for r in case["d1"]:
        k = (r["Id_1"], r["Id_2"])
        if case["scalar"] is None and k not in d2:
            continue
        b_ = d2[k] if case["scalar"] is None else case["scalar"]
        a = r["Me_1"]
        bo = cmp3(case["op"], a, b_)
        out[k] = dict(bool=bo, code=case["code"] if bo is False else None, level=case["level"] if bo is False else None, imbalance=(a - b_) if (case["imbalance"] and a is not None and b_ is not None) else None)
    return out


# ---------------------------------------------------------------- hierarchical
def hr_case_strategy():
    from hypothesis import strategies as st
    ITEMS = ["a", "b", "c", "d", "e", "f"]

    @st.composite
    def build(draw):
        op_kind = draw(st.sampled_from(["check_hierarchy", "check_hierarchy", "hierarchy"]))
        nrules = draw(st.integers(1, 3))
        rules, lefts, used = [], set(), set()
        for i in range(nrules):
            free = [x for x in ITEMS if x not in lefts]
            left = draw(st.sampled_from(free))
            rights = draw(st.lists(st.sampled_from([x for x in ITEMS if x != left]), min_size=1, max_size=3, unique=True))
            signs = [draw(st.sampled_from(["+", "-"])) for _ in rights]
            signs[0] = "+" if draw(st.booleans()) else signs[0]
            cmpop = "=" if op_kind == "hierarchy" else draw(st.sampled_from(["=", ">=", "<=", ">", "<"]))
            rules.append(dict(left=left, rights=rights, signs=signs, op=cmpop, code=draw(st.one_of(st.none(), st.sampled_from(["H1", "h x"]))), level=draw(st.one_of(st.none(), st.sampled_from([1, 3])))))
            lefts.add(left); used.update(rights); used.add(left)
        # region where all modes coincide: no rule reads an item another rule defines
        if any(x in lefts for r in rules for x in r["rights"]):
            rules = rules[:1]
            lefts = {rules[0]["left"]}; used = set(rules[0]["rights"]) | lefts
        groups = draw(st.lists(st.sampled_from([1, 2, 3]), min_size=1, max_size=3, unique=True))
        vals = st.sampled_from([1.0, 2.0, 2.5, 4.0, -1.5, 7.0, 10.0])
        items = sorted(used if op_kind == "check_hierarchy" else (used - lefts) | set(draw(st.lists(st.sampled_from(sorted(lefts)), max_size=2, unique=True))))
        extra = draw(st.lists(st.sampled_from(["x", "y"]), max_size=1))
        rows = [{"Id_1": g, "Id_2": it, "Me_1": draw(vals)} for g in groups for it in items + extra]
        mode = draw(st.sampled_from(["", "non_null", "non_zero", "partial_null", "partial_zero", "always_null", "always_zero"]))
        out = draw(st.sampled_from(["", "invalid", "all", "all_measures"] if op_kind == "check_hierarchy" else ["", "computed", "all"]))
        return dict(kind=op_kind, rules=rules, named=draw(st.booleans()), rows=rows, mode=mode, out=out)
    return build()


def hr_script(case):
    parts = []
    for i, r in enumerate(case["rules"], 1):
        s = ("r%d: " % i) if case["named"] else ""
        rhs = ""
        for j, (it, sg) in enumerate(zip(r["rights"], r["signs"])):
            rhs += ((" %s " % sg) if j else ("- " if sg == "-" else "")) + it
        s += "%s %s %s" % (r["left"], r["op"], rhs)
        if r["code"] is not None:
            s += ' errorcode "%s"' % r["code"]
        if r["level"] is not None:
            s += " errorlevel %d" % r["level"]
        parts.append(s)
    return "define hierarchical ruleset hr (variable rule Id_2) is %s end hierarchical ruleset;\nR <- %s(DS_1, hr rule Id_2 %s %s);" % ("; ".join(parts), case["kind"], case["mode"], case["out"])


def hr_expected(case):
    by = {}
    for r in case["rows"]:
        by.setdefault(r["Id_1"], {})[r["Id_2"]] = r["Me_1"]
    if case["kind"] == "check_hierarchy":
        out = {}
        for i, r in enumerate(case["rules"], 1):
            rid = ("r%d" % i) if case["named"] else str(i)
            for g, items in by.items():
                total = sum((1 if s == "+" else -1) * items[it] for it, s in zip(r["rights"], r["signs"]))
                left = items[r["left"]]
                b = OPS[r["op"]](left, total)
                out[(g, r["left"], rid)] = dict(bool=b, code=r["code"] if b is False else None, level=r["level"] if b is False else None, imbalance=left - total, Me_1=left)
        return out
    comp = {}
    for r in case["rules"]:
        for g, items in by.items():
            comp[(g, r["left"])] = sum((1 if s == "+" else -1) * items[it] for it, s in zip(r["rights"], r["signs"]))
    if case["out"] in ("", "computed"):
        return comp
    full = {(g, it): v for g, items in by.items() for it, v in items.items()}
    full.update(comp)
    return full


# ---------------------------------------------------------------- driver
def run_case(case):
    from vtlengine import run
    from vtlengine.Exceptions import VTLEngineException
    I = [eng.comp("Id_1", "Integer", "I"), eng.comp("Id_2", "String", "I")]
    if case["kind"] == "dp":
        comps = I + [eng.comp("Me_1", "Number"), eng.comp("Me_2", "Number")]
        script, S, dps = dp_script(case), eng.structures(eng.structure("DS_1", comps)), {"DS_1": eng.frame(comps, case["rows"])}
    elif case["kind"] == "check":
        comps = I + [eng.comp("Me_1", "Number")]
        script = check_script(case)
        names = ["DS_1"] + (["DS_2"] if case["scalar"] is None else [])
        S = eng.structures(*[eng.structure(n, comps) for n in names]); dps = {"DS_1": eng.frame(comps, case["d1"])}
        if case["scalar"] is None:
            dps["DS_2"] = eng.frame(comps, case["d2"])
    else:
        comps = I + [eng.comp("Me_1", "Number")]
        script, S, dps = hr_script(case), eng.structures(eng.structure("DS_1", comps)), {"DS_1": eng.frame(comps, case["rows"])}
    facts = dict(script=script, kind=case["kind"])
    try:
        res = run(script=script, data_structures=S, datapoints=dps)["R"]
    except VTLEngineException as e:
        return [("engine_rejects:%s:%s" % (case["kind"], e.args[1] if len(e.args) > 1 else type(e).__name__), "run raised %s" % str(e)[:250])], facts
    except Exception as e:  # noqa
        return [("raw:%s:%s" % (case["kind"], type(e).__name__), "run raised %s: %s" % (type(e).__name__, str(e)[:250]))], facts
    if case["kind"] == "dp":
        exp = dp_expected(case)
        facts["false"] = sum(1 for v in exp.values() if v["bool"] is False); facts["null"] = sum(1 for v in exp.values() if v["bool"] is None)
        return compare_validation(exp, res, case["mode"], ["Id_1", "Id_2", "ruleid"], "check_datapoint"), facts
    if case["kind"] == "check":
        exp = check_expected(case)
        facts["false"] = sum(1 for v in exp.values() if v["bool"] is False); facts["null"] = sum(1 for v in exp.values() if v["bool"] is None)
        # without an output keyword check() returns every datapoint (the engine's and, as far as the offline sources show, VTL's default is "all")
        return compare_validation(exp, res, case["mode"] or "all", ["Id_1", "Id_2"], "check", with_imbalance=True, measures=()), facts
    exp = hr_expected(case)
    totals = [v["Me_1"] - v["imbalance"] for v in exp.values()] if case["kind"] == "check_hierarchy" else list(hr_expected(dict(case, out="computed")).values())
    if any(abs(t) < 1e-12 for t in totals):
        facts["skipped"] = "zero_total"   # a right-hand total of exactly zero: the *_zero / non_zero modes may treat it specially - outside the region where all modes coincide
        return [], facts
    if case["kind"] == "check_hierarchy":
        facts["false"] = sum(1 for v in exp.values() if v["bool"] is False); facts["null"] = 0
        return compare_validation(exp, res, case["out"], ["Id_1", "Id_2", "ruleid"], "check_hierarchy:" + (case["mode"] or "default_mode"), with_imbalance=True, measures=("Me_1",)), facts
    cols, rows = eng.dataset_rows(res)
    got = {(r["Id_1"], r["Id_2"]): r["Me_1"] for r in rows}
    facts["false"] = len(exp); facts["null"] = 0
    if set(got) != set(exp):
        return [("hierarchy:%s:%s:items" % (case["mode"] or "default_mode", case["out"] or "default"), "returned but not expected %r; expected but missing %r" % (sorted(set(got) - set(exp))[:3], sorted(set(exp) - set(got))[:3]))], facts
    for k, v in exp.items():
        if not veq(got[k], v):
            return [("hierarchy:%s:%s:value" % (case["mode"] or "default_mode", case["out"] or "default"), "%r: %r, components give %r" % (k, got[k], v))], facts
    return [], facts


def work(seed, n):
    warnings.filterwarnings("ignore")
    import hypothesis
    from hypothesis import given, settings, HealthCheck, strategies as st
    part = core.Part()

    @settings(max_examples=n, database=None, deadline=None, suppress_health_check=list(HealthCheck), phases=[hypothesis.Phase.generate])
    @hypothesis.seed(seed)
    @given(st.one_of(dp_case_strategy(), dp_case_strategy(), check_case_strategy(), hr_case_strategy(), hr_case_strategy()))
    def prop(case):
        fails, facts = run_case(case)
        if facts.get("skipped"):
            part.excluded["hierarchical_case_with_zero_total"] = part.excluded.get("hierarchical_case_with_zero_total", 0) + 1
            return
        nt = facts.get("false", 0) >= 1
        part.case(core.fingerprint(case), nt, sample=dict(script=facts["script"]) if nt and len(part.samples) < 3 else None,
                  labels=["op=" + case["kind"], "mode=" + str(case.get("mode")), "out=" + str(case.get("out", ""))] + (["has_null_outcome"] if facts.get("null") else []))
        for key, what in fails:
            part.fail(key, dict(script=facts["script"], case=case), what)
    prop()
    return part


def run(ctx):
    ctx.rule = ("cases: Hypothesis-generated (ruleset, data, validation mode, output mode) for check_datapoint, check, check_hierarchy and hierarchy; oracle = independent three-valued evaluation of each rule on each datapoint; "
                "non-trivial = at least one (datapoint, rule) pair evaluates to FALSE (hierarchy: at least one computed item)")
    n = 40 if ctx.quick else 2500
    ctx.merge(core.pmap("checks.c07", "work", [(ctx.seed * 1009 + k, n) for k in range(16)], procs=16))
    ctx.assumptions = ["check_hierarchy / hierarchy are generated only where all six validation modes must agree (every mentioned code item present, non-null and non-zero in every group, every right-hand total non-zero; no rule reads an item another rule computes): "
                       "the mode-specific treatment of missing / null / zero items and the effect of rule ordering are NOT decided by this check",
                       "a when-condition that evaluates to null makes the rule evaluate to null (neither reported by invalid nor given an errorcode)"]


def replay(ctx, path):
    import json
    warnings.filterwarnings("ignore")
    c = json.load(open(path))["case"]["case"]
    def tup(x):
        return tuple(tup(i) for i in x) if isinstance(x, list) else x
    if c["kind"] == "dp":
        c["rules"] = [tuple(tup(p) if isinstance(p, list) else p for p in r) for r in c["rules"]]
    fails, facts = run_case(c)
    print("replay:", facts["script"]); print("failures:", fails)
    return 1 if fails else 0
