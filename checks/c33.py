"""C33 — results depend only on the set of input datapoints.

Metamorphic oracle: permuting the rows of any input table and/or reordering its columns, in each input
form (CSV, all-string DataFrame, string-typed Parquet), leaves run() results unchanged as keyed sets.
The reference for each form is the identity arrangement in the SAME form (form differences are C18's subject).
"""
import itertools, os, re, shutil, tempfile, warnings
from verif import core, corpus, cmp, eng, inputs

LEVEL = "exploration"
ORDER_SENSITIVE = re.compile(r"\b(DS_3|inner_join|left_join|full_join|cross_join|union|intersect|setdiff|symdiff|group\s+(by|except|all)|aggr|over\s*\(|sum|avg|count|min|max|median|hierarchy|check_hierarchy|exists_in|fill_time_series|flow_to_stock|stock_to_flow|timeshift)\b")
ANALYTIC = re.compile(r"\bover\s*\(")


def arrangements(nrows, ncols, quick, rng):
    """list of (row_perm or None, col_perm or None) != identity"""
    out = []
    idx = list(range(nrows))
    if nrows >= 2:
        if nrows <= (3 if quick else 6):
            perms = [list(p) for p in itertools.permutations(idx) if list(p) != idx]
            if quick and len(perms) > 3:
                perms = rng.sample(perms, 3)
        else:
            perms = [list(reversed(idx)), idx[1:] + idx[:1]]
            for _ in range(1 if quick else 6):
                p = list(idx); rng.shuffle(p); perms.append(p)
        out += [(p, None) for p in perms if p != idx]
    cidx = list(range(ncols))
    if ncols >= 2:
        c = list(reversed(cidx))
        out.append((None, c))
        if nrows >= 2:
            c2 = list(cidx); rng.shuffle(c2)
            out.append((list(reversed(idx)), c2))
    return out


def check_tables(part, src, tables, mk_kwargs, labels, quick, rng, forms, script):
    """tables: {name: (header, rows)}; mk_kwargs(datapoints) -> run kwargs."""
    from vtlengine import run
    tmp = tempfile.mkdtemp(prefix="c33_", dir=os.environ.get("VERIF_TMP", "/var/tmp"))
    try:
        maxrows = max([len(r) for _, r in tables.values()] + [0])
        sensitive = bool(ORDER_SENSITIVE.search(script))
        for form in forms:
            base_dp = {n: inputs.materialise(form, n, h, r, tmp, "_id") for n, (h, r) in tables.items()}
            try:
                ref = cmp.canon_results(run(**mk_kwargs(base_dp)))
            except Exception:
                part.hist["reference_run_failed:" + form] += 1
                continue
            # one arrangement set per case: permute every table simultaneously with its own permutation
            arrs = {n: arrangements(len(r), len(h), quick, rng) for n, (h, r) in tables.items()}
            k = max([len(a) for a in arrs.values()] + [0])
            tested = 0
            for j in range(k):
                dp, desc = {}, {}
                for n, (h, r) in tables.items():
                    a = arrs[n]
                    if a:
                        rp, cp = a[j % len(a)]
                        h2, r2 = inputs.permute(h, r, rp, cp)
                        desc[n] = dict(rows=rp, cols=cp)
                    else:
                        h2, r2 = h, r
                    dp[n] = inputs.materialise(form, n, h2, r2, tmp, "_%d" % j)
                tested += 1
                part.hist["arrangements_run"] += 1
                case = dict(source=src, script=script, form=form, tables={n: dict(header=h, rows=r) for n, (h, r) in tables.items()} if maxrows <= 12 else "see corpus files", arrangement=desc)
                try:
                    got = cmp.canon_results(run(**mk_kwargs(dp)))
                except Exception as e:  # noqa
                    part.fail("permuted_run_raises:%s:%s" % (form, eng.classify_exc(e)), case, "identity arrangement runs, permuted arrangement raises %s: %s" % (type(e).__name__, str(e)[:200]))
                    break
                d = cmp.diff_results(ref, got)
                if d:
                    part.fail("result_differs:%s:%s" % (form, "cols" if all(v["rows"] is None for v in desc.values()) else "rows"), case, d)
                    break
            nt = maxrows >= 3 and tested > 0 and sensitive
            part.case(core.fingerprint([src, script, form, sorted((n, h, r) for n, (h, r) in tables.items())]), nt,
                      sample=dict(source=src, script=script[:200], form=form, rows=maxrows) if nt and len(part.samples) < 3 else None,
                      labels=labels + ["form=" + form] + (["order_sensitive_op"] if sensitive else []))
    finally:
        shutil.rmtree(tmp, ignore_errors=True)


def work_corpus(ids, quick, seed):
    warnings.filterwarnings("ignore")
    import random
    part = core.Part()
    cases = {c["id"]: c for c in corpus.harvest()}
    for n, i in enumerate(ids):
        c = cases[i]
        if c["eval"] or c["nondet"]:
            part.hist["skipped_nondeterministic_or_eval"] += 1
            continue
        if ANALYTIC.search(c["script"]):
            part.hist["skipped_corpus_analytic_possible_ties"] += 1
            continue
        tables = {}
        for name, p in c["dps"].items():
            if p is None:
                continue
            try:
                tables[name] = inputs.read_csv_table(p)
            except Exception:
                tables = None
                break
        if not tables:
            part.hist["no_tables"] += 1
            continue
        rng = random.Random(seed * 7 + n)
        forms = ["csv", "df", "parquet"] if not quick else [["csv", "df", "parquet"][n % 3]]
        def mk(dp, c=c):
            full = {k: None for k in c["dps"]}
            full.update(dp)
            return corpus.run_kwargs(c, dps=full)
        check_tables(part, i, tables, mk, ["corpus"], quick, rng, forms, c["script"])
    return part


# The enumerated rule below is associative and commutative (max over C > N > F), so the fold over a group is fully
# determined whatever the order; non-AC tables are C28's subject.
VIRAL_DEFS = """define viral propagation vp_a (variable At_1) is
  when "C" then "C";
  when "N" then "N";
  else "F"
end viral propagation;
"""
SCRIPTS = [
    "R <- union(DS_1, DS_2);", "R <- union(DS_2, DS_1, DS_1 [filter Me_1 > 0]);", "R <- intersect(DS_1, DS_2);", "R <- setdiff(DS_1, DS_2);", "R <- symdiff(DS_1, DS_2);",
    "R <- sum(DS_1 group by Id_1);", "R <- avg(DS_1 group by Id_2);", "R <- count(DS_1 group by Id_1);", "R <- min(DS_1 group by Id_2); R2 <- max(DS_1 group except Id_2);",
    "R <- median(DS_1 group by Id_1);", "R <- stddev_samp(DS_1 group by Id_1); R2 <- var_pop(DS_1 group by Id_2);", "R <- sum(DS_1);",
    "R <- DS_1 [aggr x := count(), y := sum(Me_1) group by Id_2 having count() > 1];",
    "R <- first_value(DS_1 over (partition by Id_1 order by Id_2 asc));", "R <- last_value(DS_1 over (partition by Id_1 order by Id_2 desc));",
    "R <- DS_1 [calc r := rank(over (partition by Id_1 order by Id_2 desc))];", "R <- lag(DS_1, 1 over (partition by Id_1 order by Id_2));",
    "R <- sum(DS_1 over (partition by Id_1 order by Id_2 data points between 1 preceding and current data point));",
    "R <- DS_1 [calc c := count(Me_1 over (partition by Id_2 order by Id_1 data points between unbounded preceding and current data point))];",
    "R <- ratio_to_report(DS_1 over (partition by Id_1));",
    "R <- inner_join(DS_1 as a, DS_2 as b rename a#Me_1 to a1, b#Me_1 to b1, a#Me_2 to a2, b#Me_2 to b2, a#At_1 to t1, b#At_1 to t2);",
    "R <- left_join(DS_1 as a, DS_2 as b keep a#Me_1, b#Me_2);", "R <- full_join(DS_1 as a, DS_2 as b keep a#Me_1, b#Me_2);",
    "R <- DS_1 + DS_2;", "R <- DS_1 [filter Me_1 > 0] * DS_2;", "R <- exists_in(DS_1, DS_2, all);", "R <- DS_1#Me_1 > DS_2#Me_1;",
    "R <- DS_1 [sub Id_2 = \"a\"]; R2 <- DS_1 [keep Me_1] [rename Me_1 to x];",
]


T_SCRIPTS = ["R <- DS_3;", "R <- DS_3 [calc y := getyear(Me_d), p := period_indicator(Me_p)];", "R <- max(DS_3 group by Id_1);", "R <- DS_3 [filter Me_d > cast(\"2020-06-01\", date)];",
             "R <- DS_3 [calc q := time_agg(\"A\", Me_p)];", "R <- count(DS_3 group by Id_2);", "R <- DS_3 [keep Me_p];"]
DATES = [None, "2020-01-31", "2020-01-31 10:30:00", "2021-02-28T23:59:59", "2019-12-31", "2020-06-15 00:00:01"]
PERIODS = [None, "2020-Q1", "2020Q2", "2020-M1", "2020M12", "2020-A1", "2020", "2020-W01", "2020W53", "2020S2", "2021-03"]


def work_time(seed, n, quick):
    """Date / Time_Period measures with mixed spellings (date vs date-time, hyphenated vs compact periods)."""
    warnings.filterwarnings("ignore")
    import random, hypothesis
    from hypothesis import given, settings, HealthCheck, strategies as st
    part = core.Part()
    comps = [eng.comp("Id_1", "Integer", "I"), eng.comp("Id_2", "String", "I"), eng.comp("Me_d", "Date"), eng.comp("Me_p", "Time_Period")]
    S = eng.structures(eng.structure("DS_3", comps))
    header = [c["name"] for c in comps]
    cell = st.tuples(st.sampled_from(["1", "2", "3"]), st.sampled_from(["a", "b", "c"]), st.sampled_from(DATES), st.sampled_from(PERIODS))
    table = st.lists(cell, min_size=2, max_size=5, unique_by=lambda r: (r[0], r[1])).map(lambda rs: [list(r) for r in rs])

    @settings(max_examples=n, database=None, deadline=None, suppress_health_check=list(HealthCheck), phases=[hypothesis.Phase.generate])
    @hypothesis.seed(seed)
    @given(st.sampled_from(T_SCRIPTS), table, st.sampled_from(["csv", "df", "parquet"]), st.integers(0, 10**6))
    def prop(script, t, form, rs):
        mk = lambda dp: dict(script=script, data_structures=S, datapoints=dp, return_only_persistent=False)
        check_tables(part, "generated:time", {"DS_3": (header, t)}, mk, ["generated:time"], quick, random.Random(rs), [form], script)
    prop()
    return part


def work_generated(seed, n, quick):
    warnings.filterwarnings("ignore")
    import random, hypothesis
    from hypothesis import given, settings, HealthCheck, strategies as st
    part = core.Part()
    comps = [eng.comp("Id_1", "Integer", "I"), eng.comp("Id_2", "String", "I"), eng.comp("Me_1", "Number"), eng.comp("Me_2", "Integer"), eng.comp("At_1", "String", "V")]
    S = eng.structures(eng.structure("DS_1", comps), eng.structure("DS_2", comps))
    header = [c["name"] for c in comps]
    cell = st.tuples(st.sampled_from(["1", "2", "3"]), st.sampled_from(["a", "b", "c", "d"]),
                     st.sampled_from([None, "0", "1.5", "-2", "1.5", "100.25", "3"]), st.sampled_from([None, "0", "7", "-1", "7"]), st.sampled_from([None, "C", "N", "F"]))
    table = st.lists(cell, min_size=0, max_size=7, unique_by=lambda r: (r[0], r[1])).map(lambda rs: [list(r) for r in rs])
    st_set = dict(max_examples=n, database=None, deadline=None, suppress_health_check=list(HealthCheck), phases=[hypothesis.Phase.generate])

    @settings(**st_set)
    @hypothesis.seed(seed)
    @given(st.sampled_from(SCRIPTS), table, table, st.sampled_from(["csv", "df", "parquet"]), st.integers(0, 10**6))
    def prop(script, t1, t2, form, rs):
        full = VIRAL_DEFS + script
        mk = lambda dp: dict(script=full, data_structures=S, datapoints=dp, return_only_persistent=False)
        check_tables(part, "generated", {"DS_1": (header, t1), "DS_2": (header, t2)}, mk, ["generated"], quick, random.Random(rs), [form], full)
    prop()
    return part


def _dispatch(fname, args):
    return globals()[fname](*args)


def run(ctx):
    ctx.rule = ("cases: (script, input tables, input form); every table's rows are permuted (all permutations for <=3 rows quick / <=6 rows thorough, else reverse, rotation and "
                "random shuffles) and columns reordered; reference = identity arrangement in the same form; non-trivial = >=3 input rows, >=1 non-identity arrangement executed and "
                "a join/set/aggregate/analytic/time-series operator in the script; corpus scripts with analytic windows are skipped (possible ties), eval/random/current_date skipped")
    os.environ["VERIF_TMP"] = ctx.workdir
    exe = corpus.executable_cases(max_s=1.5 if ctx.quick else None)
    if ctx.quick:
        exe = corpus.rotate(exe, ctx.seed, 80)
    ids = [c["id"] for c in exe]
    n = 8 if ctx.quick else 500
    jobs = [("work_corpus", (ids[k::16], ctx.quick, ctx.seed)) for k in range(16)] + [("work_generated", (ctx.seed * 1009 + k, n, ctx.quick)) for k in range(16)]
    jobs += [("work_time", (ctx.seed * 1009 + 100 + k, max(4, n // 2), ctx.quick)) for k in range(16)]
    ctx.merge(core.pmap("checks.c33", "_dispatch", jobs, procs=16))
    ctx.assumptions = ["CSV cells are re-written through python's csv module (minimal quoting); an empty CSV field is treated as null in every form",
                       "analytic orderings in generated scripts are total by construction (order by the remaining identifier)"]


def replay(ctx, path):
    import json, random
    warnings.filterwarnings("ignore")
    os.environ["VERIF_TMP"] = ctx.workdir
    case = json.load(open(path))["case"]
    part = core.Part()
    if case["source"] == "generated:time":
        comps = [eng.comp("Id_1", "Integer", "I"), eng.comp("Id_2", "String", "I"), eng.comp("Me_d", "Date"), eng.comp("Me_p", "Time_Period")]
        S = eng.structures(eng.structure("DS_3", comps))
        tables = {n: (t["header"], t["rows"]) for n, t in case["tables"].items()}
        mk = lambda dp: dict(script=case["script"], data_structures=S, datapoints=dp, return_only_persistent=False)
        check_tables(part, "generated:time", tables, mk, [], False, random.Random(1), [case["form"]], case["script"])
    elif case["source"] == "generated":
        comps = [eng.comp("Id_1", "Integer", "I"), eng.comp("Id_2", "String", "I"), eng.comp("Me_1", "Number"), eng.comp("Me_2", "Integer"), eng.comp("At_1", "String", "V")]
        S = eng.structures(eng.structure("DS_1", comps), eng.structure("DS_2", comps))
        tables = {n: (t["header"], t["rows"]) for n, t in case["tables"].items()}
        mk = lambda dp: dict(script=case["script"], data_structures=S, datapoints=dp, return_only_persistent=False)
        check_tables(part, "generated", tables, mk, [], False, random.Random(1), [case["form"]], case["script"])
    else:
        part = work_corpus([case["source"]], False, 1)
    print("replay failures:", {k: v[2] for k, v in part.failures.items()})
    return 1 if part.failures else 0
