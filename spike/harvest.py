import glob, os, json, re
def harvest(root="/repo/tests"):
    out=[]
    for vtl in sorted(glob.glob(root+'/*/data/vtl/*.vtl')):
        base=os.path.dirname(os.path.dirname(vtl)); code=os.path.basename(vtl)[:-4]
        js=sorted(glob.glob(os.path.join(base,'DataStructure','input',code+'-*.json')))
        if not js: continue
        structs=[]; dps={}
        ok=True
        for j in js:
            try: st=json.load(open(j))
            except Exception: ok=False; break
            structs.append(st)
            csvp=os.path.join(base,'DataSet','input',os.path.basename(j)[:-5]+'.csv')
            for d in st.get('datasets',[]):
                if os.path.exists(csvp): dps[d['name']]=csvp
        if not ok: continue
        vds=sorted(glob.glob(os.path.join(base,'ValueDomain','*.json')))
        sqls=sorted(glob.glob(os.path.join(base,'sql','*.json')))
        out.append(dict(id=os.path.relpath(vtl,root), script=open(vtl,errors='replace').read(), structs=structs, dps=dps, vds=vds, sqls=sqls))
    return out
