"""Pure-Python stand-in for the compiled vtl_cpp_parser extension (spike)."""
import json, os, re, subprocess, threading, atexit
_D = os.environ.get("VTL_SHIM_DIR", "/tmp/spike")
_REPO = os.environ.get("VTL_REPO", "/repo")
_J = "/opt/veriftools/tlapm/lib/tlapm/backends/Isabelle/contrib/solr-9.7.0-1/lib/antlr4-runtime-4.11.1.jar"
_cpp = _REPO + "/src/vtlengine/AST/Grammar/_cpp_parser/"
_b = open(_cpp + "bindings.cpp").read()
_rules = [json.loads(l) for l in open(_D + "/parser.rules")]
_symbolic = [json.loads(l) for l in open(_D + "/parser.symbolic")]
_alts = json.load(open(_D + "/alts.json"))
def _lc(s): return s[0].lower() + s[1:]
# label -> alt_index (from type map)
_label_alt = {}
for m in re.finditer(r'g_type_map\[typeid\(Vtl::(\w+)Context\)\]\s*=\s*\{Vtl::Rule(\w+),\s*(-?\d+)\}', _b):
    _label_alt[_lc(m.group(1))] = (_rules.index(_lc(m.group(2))), int(m.group(3)))
# (rule, kind, alt) -> alt_index
_ALT = {}
for r, alts in _alts.items():
    ri = _rules.index(r)
    prim = [a for a in alts if not a[1]]; loop = [a for a in alts if a[1] and a[2]] + [a for a in alts if a[1] and not a[2]]
    for kind, lst in (("p", prim), ("l", loop)):
        for i, (label, _, _b2) in enumerate(lst, 1):
            if label is None: _ALT[(ri, kind, i)] = _label_alt.get(r, (ri, -1))[1]
            else: _ALT[(ri, kind, i)] = _label_alt[label][1]
# module constants
for i, s in enumerate(_symbolic):
    if s: globals()[s] = i
TOKEN_EOF = -1
for m in re.finditer(r'm\.attr\("(RULE_\w+)"\)\s*=\s*static_cast<int>\(Vtl::Rule(\w+)\)', _b):
    globals()[m.group(1)] = _rules.index(_lc(m.group(2)))

class TerminalNode:
    __slots__ = ("symbol_type", "text", "line", "column")
    is_terminal = True
    def __init__(self, t, text, line, col): self.symbol_type, self.text, self.line, self.column = t, text, line, col
class ParseNode:
    __slots__ = ("rule_index", "alt_index", "children", "start_line", "start_column", "stop_line", "stop_column", "stop_text")
    is_terminal = False
    @property
    def ctx_id(self): return (self.rule_index, self.alt_index)
    @property
    def text(self):
        return "".join(c.text for c in self.children)

_lock = threading.Lock(); _proc = None
_state = {"text": "", "comments": [], "error": None}
def _server():
    global _proc
    if _proc is None or _proc.poll() is not None:
        _proc = subprocess.Popen(["java", "-Xss512m", "-cp", _J + ":" + _D, "VtlParseServer", _D], stdin=subprocess.PIPE, stdout=subprocess.PIPE)
        atexit.register(_proc.kill)
    return _proc
def _raw(text, mode="SLL"):
    with _lock:
        p = _server(); b = text.encode("utf-8")
        p.stdin.write(("%s %d\n" % (mode, len(b))).encode() + b); p.stdin.flush()
        lines = []
        while True:
            l = p.stdout.readline()
            if not l: raise RuntimeError("parse server died")
            l = l.decode("utf-8").rstrip("\n")
            if l == "END": break
            lines.append(l)
        return lines
def _src_line(src, line, col1):
    ls = src.split("\n")
    if line < 1 or line > len(ls): return "", col1
    out = ""; remapped = col1; oc = 1
    for c in ls[line-1]:
        if oc == col1: remapped = len(out) + 1
        if c == "\t": out += "    "
        elif c != "\r": out += c
        oc += 1
    if col1 > oc: remapped = len(out) + 1
    return out, remapped
def parse(text, mode="SLL"):
    lines = _raw(text, mode)
    comments = []; error = None; root = None; stack = []
    for l in lines:
        k = l[0]
        if k == "R":
            f = l.split(" ", 10)
            n = ParseNode(); ri = int(f[1]); pa, la, rec, nch = int(f[2]), int(f[3]), int(f[4]), int(f[5])
            n.rule_index = ri
            n.alt_index = _ALT.get((ri, "l", la) if rec else (ri, "p", pa or 1), -1)
            n.children = []; n.start_line, n.start_column, n.stop_line, n.stop_column = int(f[6]), int(f[7]), int(f[8]), int(f[9]); n.stop_text = json.loads(f[10])
            if stack: stack[-1][0].children.append(n)
            else: root = n
            stack.append([n, nch])
        elif k in "TZ":
            f = l.split(" ", 4)
            stack[-1][0].children.append(TerminalNode(int(f[1]), json.loads(f[4]), int(f[2]), int(f[3])))
        elif k == "C":
            f = l.split(" ", 4); comments.append({"type": int(f[1]), "text": json.loads(f[4]), "line": int(f[2]), "column": int(f[3])}); continue
        elif k == "E":
            f = l.split(" ", 3); dec = json.JSONDecoder(); msg, e = dec.raw_decode(f[3]); off = json.loads(f[3][e:].strip())
            sl, col = _src_line(text, int(f[1]), int(f[2]) + 1)
            error = {"line": int(f[1]), "column": col - 1, "message": msg, "offending_text": off, "source_line": sl, "underline_length": max(1, len(off)) if off != "<EOF>" else 1}; continue
        elif k == "X": raise RuntimeError(l)
        while stack and len(stack[-1][0].children) == stack[-1][1]: stack.pop()
    _state.update(text=text, comments=comments, error=error)
    return root
def get_input_text(): return _state["text"]
def get_comments(): return list(_state["comments"])
def get_syntax_error(): return _state["error"]
