import sys, importlib.abc, importlib.util, os
class _F(importlib.abc.MetaPathFinder):
    def find_spec(self, name, path, target=None):
        if name == "vtlengine.AST.Grammar._cpp_parser.vtl_cpp_parser":
            return importlib.util.spec_from_file_location(name, os.path.join(os.path.dirname(__file__), "vtl_cpp_parser_shim.py"))
sys.meta_path.insert(0, _F())
