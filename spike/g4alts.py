# parse Vtl.g4: rule -> list of (label or None, is_left_recursive)
import re, json, sys
src = open('/repo/src/vtlengine/AST/Grammar/Vtl.g4').read()
# strip comments
src = re.sub(r'/\*.*?\*/', '', src, flags=re.S)
src = re.sub(r'//[^\n]*', '', src)
# strip string literals (none in parser grammar normally)
body = src.split(';',1)[1]  # after "parser grammar Vtl;"
body = re.sub(r'options\s*\{[^}]*\}', '', body)
rules = {}
for m in re.finditer(r'([a-z][A-Za-z0-9_]*)\s*:(.*?);', body, re.S):
    name, rhs = m.group(1), m.group(2)
    # split on top-level |
    alts=[]; depth=0; cur=''
    for ch in rhs:
        if ch in '([': depth+=1
        elif ch in ')]': depth-=1
        if ch=='|' and depth==0: alts.append(cur); cur=''
        else: cur+=ch
    alts.append(cur)
    out=[]
    for a in alts:
        lm = re.search(r'#\s*(\w+)\s*$', a.strip())
        label = lm.group(1) if lm else None
        a2 = re.sub(r'#\s*\w+\s*$', '', a.strip()).strip()
        first = re.match(r'(?:\w+\s*=\s*)?(\w+)', a2)
        lr = bool(first and first.group(1)==name)
        last = re.search(r'(\w+)\s*$', a2)
        binary = bool(lr and last and last.group(1)==name)
        out.append((label, lr, binary))
    rules[name]=out
json.dump(rules, open('alts.json','w'), indent=0)
print(len(rules)); print(rules['expr']); print(rules['start'])
