import re, sys, json
def grab(path, lexer):
    src = open(path).read()
    m = re.search(r'static const int32_t serializedATNSegment\[\] = \{(.*?)\};', src, re.S)
    atn = [int(x) for x in re.findall(r'-?\d+', m.group(1))]
    # the vectors passed to make_unique<...StaticData>( ... )
    m2 = re.search(r'make_unique<\w+StaticData>\((.*?)\n  \);', src, re.S)
    body = m2.group(1)
    vecs = re.findall(r'std::vector<std::string>\{(.*?)\n    \}', body, re.S)
    out = []
    for v in vecs:
        items = re.findall(r'"((?:[^"\\]|\\.)*)"', v)
        out.append([bytes(i, 'utf-8').decode('unicode_escape') for i in items])
    return atn, out
patn, pv = grab('/repo/src/vtlengine/AST/Grammar/_cpp_parser/Vtl.cpp', False)
latn, lv = grab('/repo/src/vtlengine/AST/Grammar/_cpp_parser/VtlTokens.cpp', True)
print(len(patn), [len(v) for v in pv]); print(len(latn), [len(v) for v in lv])
def w(name, lst):
    with open(name,'w') as f:
        for x in lst: f.write(json.dumps(x) if isinstance(x,str) else str(x)); f.write('\n')
w('parser.atn', patn); w('lexer.atn', latn)
w('parser.rules', pv[0]); w('parser.literals', pv[1]); w('parser.symbolic', pv[2])
w('lexer.rules', lv[0]); w('lexer.channels', lv[1]); w('lexer.modes', lv[2]); w('lexer.literals', lv[3]); w('lexer.symbolic', lv[4])
