#!/bin/bash
# Offline setup: hypothesis into /venv (no-op when present), compile the parse server.
set -e
cd "$(dirname "$0")"
/venv/bin/python -c "import hypothesis" 2>/dev/null || /venv/bin/pip install --no-index --find-links /opt/veriftools/wheels hypothesis
PYTHONPATH="$PWD/lib" VERIF_REPO="${VERIF_REPO:-/repo}" /venv/bin/python -c "from verif import shim; shim.prepare('${VERIF_REPO:-/repo}'); print('parseshim ready')"
